package main

import (
	"html"
	"fmt"
	"go/types"
	"math"
	"strings"
)

type modelFn func(e *Engine, st *State, c *callCtx)

const zzPkg = "github.com/cloudwego/hertz/internal/zzverif."
const hertz = "github.com/cloudwego/hertz/"

func (e *Engine) argInt(st *State, v Value, what string) int {
	return e.concreteInt(st, v, what)
}

func (e *Engine) argString(st *State, v Value) string {
	s, ok := e.concreteString(st, v.(StrVal))
	if !ok {
		e.unsupported(st, "symbolic string where concrete needed")
	}
	return s
}

func (e *Engine) bytesArg(st *State, v Value) []Value {
	switch x := v.(type) {
	case SliceVal:
		return e.sliceSlots(st, x)
	case StrVal:
		return e.strBytes(st, x)
	}
	panic(engineErr{fmt.Sprintf("bytesArg %T", v)})
}

func (e *Engine) intVal(i int) *Term { return e.ctx.BV(64, uint64(int64(i))) }

// indexByteAlts: first index of byte c in bs (or -1), as mutually exclusive alternatives.
func (e *Engine) indexByteModel(st *State, c *callCtx, bs []Value, ch *Term, last bool) {
	cx := e.ctx
	var alts []Alt
	none := cx.True
	n := len(bs)
	for k := 0; k < n; k++ {
		i := k
		if last {
			i = n - 1 - k
		}
		eq := cx.Eq(bs[i].(*Term), ch)
		cond := cx.And(none, eq)
		if !cond.IsFalse() {
			idx := i
			alts = append(alts, Alt{cond, func(s *State) { e.finish(s, c, e.intVal(idx)) }})
		}
		none = cx.And(none, cx.Not(eq))
		if none.IsFalse() {
			break
		}
	}
	if !none.IsFalse() {
		alts = append(alts, Alt{none, func(s *State) { e.finish(s, c, e.intVal(-1)) }})
	}
	e.fork(st, alts)
}

func (e *Engine) indexModel(st *State, c *callCtx, hay, needle []Value, last bool) {
	cx := e.ctx
	n, m := len(hay), len(needle)
	if m == 0 {
		if last {
			e.finish(st, c, e.intVal(n))
		} else {
			e.finish(st, c, e.intVal(0))
		}
		return
	}
	var alts []Alt
	none := cx.True
	for k := 0; k+m <= n; k++ {
		i := k
		if last {
			i = n - m - k
		}
		eq := e.bytesEqual(hay[i:i+m], needle)
		cond := cx.And(none, eq)
		if !cond.IsFalse() {
			idx := i
			alts = append(alts, Alt{cond, func(s *State) { e.finish(s, c, e.intVal(idx)) }})
		}
		none = cx.And(none, cx.Not(eq))
		if none.IsFalse() {
			break
		}
	}
	if !none.IsFalse() {
		alts = append(alts, Alt{none, func(s *State) { e.finish(s, c, e.intVal(-1)) }})
	}
	e.fork(st, alts)
}

func (e *Engine) compareTerm(st *State, a, b []Value) *Term {
	cx := e.ctx
	n := len(a)
	if len(b) < n {
		n = len(b)
	}
	var res *Term
	switch {
	case len(a) < len(b):
		res = cx.BV(64, ^uint64(0))
	case len(a) > len(b):
		res = cx.BV(64, 1)
	default:
		res = cx.BV(64, 0)
	}
	for i := n - 1; i >= 0; i-- {
		x, y := a[i].(*Term), b[i].(*Term)
		res = cx.Ite(cx.Cmp(OpUlt, x, y), cx.BV(64, ^uint64(0)), cx.Ite(cx.Cmp(OpUlt, y, x), cx.BV(64, 1), res))
	}
	return res
}

func (e *Engine) opaqueString(st *State, s string) StrVal { return e.constString(s) }

// makeError builds an *errors.errorString holding msg.
func (e *Engine) makeError(st *State, msg string) Value {
	pkg := e.prog.ImportedPackage("errors")
	if pkg == nil {
		e.unsupported(st, "errors package not loaded")
	}
	t := pkg.Type("errorString").Type()
	id := e.allocMem(st, []Value{e.constString(msg)}, "error")
	return IfaceVal{typ: types.NewPointer(t), v: PtrVal{obj: id}}
}

// goValue converts a concrete interface value of a simple kind to a host Go value.
func (e *Engine) goValue(st *State, v Value) (interface{}, bool) {
	iv, ok := v.(IfaceVal)
	if !ok || iv.typ == nil {
		return nil, false
	}
	b, isBasic := iv.typ.(*types.Basic)
	if !isBasic {
		if sl, ok := iv.typ.(*types.Slice); ok {
			if eb, ok := sl.Elem().(*types.Basic); ok && eb.Kind() == types.Uint8 {
				sv := iv.v.(SliceVal)
				out := make([]byte, 0, sv.len)
				for _, x := range e.sliceSlots(st, sv) {
					t := x.(*Term)
					if !t.IsConst() {
						return nil, false
					}
					out = append(out, byte(t.val))
				}
				return out, true
			}
		}
		return nil, false
	}
	switch x := iv.v.(type) {
	case *Term:
		if !x.IsConst() {
			return nil, false
		}
		switch b.Kind() {
		case types.Bool:
			return x.val == 1, true
		case types.Int:
			return int(x.Signed()), true
		case types.Int8:
			return int8(x.Signed()), true
		case types.Int16:
			return int16(x.Signed()), true
		case types.Int32:
			return int32(x.Signed()), true
		case types.Int64:
			return x.Signed(), true
		case types.Uint:
			return uint(x.val), true
		case types.Uint8:
			return uint8(x.val), true
		case types.Uint16:
			return uint16(x.val), true
		case types.Uint32:
			return uint32(x.val), true
		case types.Uint64:
			return x.val, true
		}
	case StrVal:
		s, ok := e.concreteString(st, x)
		return s, ok
	case FloatVal:
		return x.f, true
	}
	return nil, false
}

func nop(e *Engine, st *State, c *callCtx) {
	e.finish(st, c, e.zeroResults(c.fn))
}

func (e *Engine) fieldOffByName(ptrT types.Type, name string) (int, types.Type) {
	stt := ptrT.Underlying().(*types.Pointer).Elem().Underlying().(*types.Struct)
	for i := 0; i < stt.NumFields(); i++ {
		if stt.Field(i).Name() == name {
			return e.fieldOffset(stt, i), stt.Field(i).Type()
		}
	}
	panic(engineErr{"field not found: " + name})
}

func atomicLoad(e *Engine, st *State, c *callCtx) {
	p := c.args[0].(PtrVal)
	t := c.fn.Signature.Results().At(0).Type()
	e.finish(st, c, e.load(st, p, t))
}
func atomicStore(e *Engine, st *State, c *callCtx) {
	e.store(st, c.args[0].(PtrVal), c.args[1])
	e.finish(st, c, nil)
}
func atomicAdd(e *Engine, st *State, c *callCtx) {
	p := c.args[0].(PtrVal)
	t := c.fn.Signature.Results().At(0).Type()
	old := e.load(st, p, t).(*Term)
	nv := e.ctx.Bin(OpAdd, old, c.args[1].(*Term))
	e.store(st, p, nv)
	e.finish(st, c, nv)
}
func atomicSwap(e *Engine, st *State, c *callCtx) {
	p := c.args[0].(PtrVal)
	t := c.fn.Signature.Results().At(0).Type()
	old := e.load(st, p, t)
	e.store(st, p, c.args[1])
	e.finish(st, c, old)
}
func atomicCAS(e *Engine, st *State, c *callCtx) {
	p := c.args[0].(PtrVal)
	t := c.fn.Signature.Params().At(1).Type()
	old := e.load(st, p, t)
	eq := e.equalValues(st, old, c.args[1], t)
	if eq.IsTrue() {
		e.store(st, p, c.args[2])
		e.finish(st, c, e.ctx.True)
		return
	}
	if eq.IsFalse() {
		e.finish(st, c, e.ctx.False)
		return
	}
	nv := c.args[2]
	e.fork(st, []Alt{
		{eq, func(s *State) { e.store(s, p, nv); e.finish(s, c, e.ctx.True) }},
		{e.ctx.Not(eq), func(s *State) { e.finish(s, c, e.ctx.False) }},
	})
}

func builtinModels() map[string]modelFn {
	m := map[string]modelFn{}

	// ----- byte searching -----
	idxByte := func(e *Engine, st *State, c *callCtx) {
		e.indexByteModel(st, c, e.bytesArg(st, c.args[0]), c.args[1].(*Term), false)
	}
	m["bytes.IndexByte"] = idxByte
	m["strings.IndexByte"] = idxByte
	m["internal/bytealg.IndexByte"] = idxByte
	m["internal/bytealg.IndexByteString"] = idxByte
	lastIdxByte := func(e *Engine, st *State, c *callCtx) {
		e.indexByteModel(st, c, e.bytesArg(st, c.args[0]), c.args[1].(*Term), true)
	}
	m["bytes.LastIndexByte"] = lastIdxByte
	m["strings.LastIndexByte"] = lastIdxByte
	idx := func(e *Engine, st *State, c *callCtx) {
		e.indexModel(st, c, e.bytesArg(st, c.args[0]), e.bytesArg(st, c.args[1]), false)
	}
	m["bytes.Index"] = idx
	m["strings.Index"] = idx
	lastIdx := func(e *Engine, st *State, c *callCtx) {
		e.indexModel(st, c, e.bytesArg(st, c.args[0]), e.bytesArg(st, c.args[1]), true)
	}
	m["bytes.LastIndex"] = lastIdx
	m["strings.LastIndex"] = lastIdx
	m["bytes.Equal"] = func(e *Engine, st *State, c *callCtx) {
		e.finish(st, c, e.bytesEqual(e.bytesArg(st, c.args[0]), e.bytesArg(st, c.args[1])))
	}
	cmp := func(e *Engine, st *State, c *callCtx) {
		e.finish(st, c, e.compareTerm(st, e.bytesArg(st, c.args[0]), e.bytesArg(st, c.args[1])))
	}
	m["bytes.Compare"] = cmp
	m["strings.Compare"] = cmp
	m["internal/bytealg.Compare"] = cmp
	count := func(e *Engine, st *State, c *callCtx) {
		bs := e.bytesArg(st, c.args[0])
		ch := c.args[1].(*Term)
		r := e.ctx.BV(64, 0)
		for _, b := range bs {
			r = e.ctx.Bin(OpAdd, r, e.ctx.Ite(e.ctx.Eq(b.(*Term), ch), e.ctx.BV(64, 1), e.ctx.BV(64, 0)))
		}
		e.finish(st, c, r)
	}
	m["internal/bytealg.Count"] = count
	m["internal/bytealg.CountString"] = count
	m["internal/bytealg.MakeNoZero"] = func(e *Engine, st *State, c *callCtx) {
		n := e.argInt(st, c.args[0], "MakeNoZero")
		e.finish(st, c, e.makeSlice(st, types.Typ[types.Uint8], n, n))
	}

	// ----- unsafe conversions in hertz -----
	m[hertz+"internal/bytesconv.B2s"] = func(e *Engine, st *State, c *callCtx) {
		s := c.args[0].(SliceVal)
		if s.len == 0 {
			e.finish(st, c, StrVal{})
			return
		}
		e.finish(st, c, StrVal{obj: s.obj, off: s.off, len: s.len})
	}
	m[hertz+"internal/bytesconv.S2b"] = func(e *Engine, st *State, c *callCtx) {
		s := c.args[0].(StrVal)
		if s.len == 0 {
			e.finish(st, c, SliceVal{esz: 1})
			return
		}
		e.finish(st, c, SliceVal{obj: s.obj, off: s.off, len: s.len, cap: s.len, esz: 1})
	}
	m["(*strings.Builder).copyCheck"] = nop

	// ----- sync -----
	for _, n := range []string{"(*sync.Mutex).Lock", "(*sync.Mutex).Unlock", "(*sync.RWMutex).Lock", "(*sync.RWMutex).Unlock",
		"(*sync.RWMutex).RLock", "(*sync.RWMutex).RUnlock", "(*sync.WaitGroup).Add", "(*sync.WaitGroup).Done", "(*sync.WaitGroup).Wait",
		"runtime.SetFinalizer", "runtime.KeepAlive", "runtime.Gosched", "runtime.GC", "time.Sleep"} {
		m[n] = nop
	}
	m["(*sync.Mutex).TryLock"] = func(e *Engine, st *State, c *callCtx) { e.finish(st, c, e.ctx.True) }
	m["(*sync.Once).Do"] = func(e *Engine, st *State, c *callCtx) {
		p := c.args[0].(PtrVal)
		done := e.load(st, p, types.Typ[types.Uint32]).(*Term)
		if !done.IsConst() {
			e.unsupported(st, "symbolic sync.Once state")
		}
		if done.val != 0 {
			e.finish(st, c, nil)
			return
		}
		e.store(st, p, e.ctx.BV(32, 1))
		e.callValue(st, c.args[1].(FuncVal), nil, c.ret, nil)
	}
	m["(*sync.Pool).Get"] = func(e *Engine, st *State, c *callCtx) {
		p := c.args[0].(PtrVal)
		key := p.obj*100000 + p.off
		if l := st.pools[key]; len(l) > 0 {
			v := l[len(l)-1]
			np := map[int][]Value{}
			for k, vv := range st.pools {
				np[k] = vv
			}
			np[key] = append([]Value(nil), l[:len(l)-1]...)
			st.pools = np
			e.finish(st, c, v)
			return
		}
		off, ft := e.fieldOffByName(c.fn.Signature.Recv().Type(), "New")
		nf := e.load(st, PtrVal{obj: p.obj, off: p.off + off}, ft).(FuncVal)
		if nf.nilFn {
			e.finish(st, c, IfaceVal{})
			return
		}
		e.callValue(st, nf, nil, c.ret, nil)
	}
	m["(*sync.Pool).Put"] = func(e *Engine, st *State, c *callCtx) {
		p := c.args[0].(PtrVal)
		key := p.obj*100000 + p.off
		if iv, ok := c.args[1].(IfaceVal); ok && iv.typ == nil {
			e.finish(st, c, nil)
			return
		}
		np := map[int][]Value{}
		for k, vv := range st.pools {
			np[k] = vv
		}
		np[key] = append(append([]Value(nil), st.pools[key]...), c.args[1])
		st.pools = np
		e.finish(st, c, nil)
	}

	// ----- sync/atomic -----
	for _, t := range []string{"Int32", "Int64", "Uint32", "Uint64", "Uintptr", "Pointer"} {
		m["sync/atomic.Load"+t] = atomicLoad
		m["sync/atomic.Store"+t] = atomicStore
		m["sync/atomic.Swap"+t] = atomicSwap
		m["sync/atomic.CompareAndSwap"+t] = atomicCAS
		if t != "Pointer" {
			m["sync/atomic.Add"+t] = atomicAdd
		}
	}
	m["(*sync/atomic.Value).Load"] = func(e *Engine, st *State, c *callCtx) {
		e.finish(st, c, e.load(st, c.args[0].(PtrVal), types.NewInterfaceType(nil, nil)))
	}
	m["(*sync/atomic.Value).Store"] = func(e *Engine, st *State, c *callCtx) {
		e.store(st, c.args[0].(PtrVal), c.args[1])
		e.finish(st, c, nil)
	}

	// ----- fmt / logging: opaque -----
	fmtStr := func(e *Engine, st *State, c *callCtx) { e.finish(st, c, e.constString("<fmt>")) }
	m["fmt.Sprintf"] = func(e *Engine, st *State, c *callCtx) {
		// concrete format; arguments concrete, or strings / byte slices with symbolic content
		// under plain %s / %v: real formatting; otherwise opaque text
		if cells, ok := e.formatCells(st, c.args[0].(StrVal), c.args[1].(SliceVal)); ok {
			e.finish(st, c, e.newString(st, cells))
			return
		}
		e.finish(st, c, e.constString("<fmt>"))
	}
	m["fmt.Sprint"] = fmtStr
	m["fmt.Sprintln"] = fmtStr
	m["fmt.Errorf"] = func(e *Engine, st *State, c *callCtx) { e.finish(st, c, e.makeError(st, "<fmt.Errorf>")) }
	// ----- mime/multipart, net/http helpers -----
	// the random boundary (crypto/rand) is a fixed 60-character text; content sniffing (512-byte
	// signature tables of net/http) answers "application/octet-stream" for every input
	m["mime/multipart.randomBoundary"] = func(e *Engine, st *State, c *callCtx) {
		e.finish(st, c, e.constString("zzrandomboundaryzzrandomboundaryzzrandomboundaryzzrandombound"))
	}
	m["net/http.DetectContentType"] = func(e *Engine, st *State, c *callCtx) {
		e.finish(st, c, e.constString("application/octet-stream"))
	}
	// go:linkname forwarders (body-less declarations bound to a function of another package)
	m["mime/multipart.readMIMEHeader"] = func(e *Engine, st *State, c *callCtx) {
		p := e.prog.ImportedPackage("net/textproto")
		if p == nil || p.Func("readMIMEHeader") == nil {
			e.unsupported(st, "net/textproto.readMIMEHeader not loaded")
			return
		}
		e.callFunction(st, p.Func("readMIMEHeader"), c.args, nil, c.ret)
	}
	// the transporter's type name (reflect) is only used in a log line
	m[hertz+"pkg/route.getTransporterName"] = func(e *Engine, st *State, c *callCtx) {
		e.finish(st, c, e.constString("transporter"))
	}
	// GODEBUG settings: every setting has its default value
	m["(*internal/godebug.Setting).Value"] = func(e *Engine, st *State, c *callCtx) { e.finish(st, c, StrVal{}) }
	m["(*internal/godebug.Setting).IncNonDefault"] = func(e *Engine, st *State, c *callCtx) { e.finish(st, c, nil) }
	m["internal/godebug.New"] = func(e *Engine, st *State, c *callCtx) { e.finish(st, c, PtrVal{}) }
	noPrint := func(e *Engine, st *State, c *callCtx) {
		e.finish(st, c, TupleVal{e.intVal(0), IfaceVal{}})
	}
	m["fmt.Fprintf"] = func(e *Engine, st *State, c *callCtx) {
		// formatted text is really written to the io.Writer (its Write method runs from SSA) when
		// the text can be formatted; a logger-style sink that cannot be formatted stays a no-op
		w, isI := c.args[0].(IfaceVal)
		if !isI || w.typ == nil || w.typ.String() == "*os.File" {
			noPrint(e, st, c) // diagnostics to stderr/stdout are not modelled
			return
		}
		cells, ok := e.formatCells(st, c.args[1].(StrVal), c.args[2].(SliceVal))
		if !ok {
			e.unsupported(st, "fmt.Fprintf with arguments the formatter model cannot print")
			return
		}
		it, ok := c.fn.Params[0].Type().Underlying().(*types.Interface)
		if !ok || it.NumMethods() != 1 {
			noPrint(e, st, c)
			return
		}
		wfn := e.lookupMethod(w.typ, it.Method(0))
		if wfn == nil {
			panic(engineErr{"fmt.Fprintf: Write method not found on " + w.typ.String()})
		}
		var buf SliceVal
		if len(cells) > 0 {
			cp := make([]Value, len(cells))
			copy(cp, cells)
			id := e.allocMem(st, cp, "fmt")
			buf = SliceVal{obj: id, off: 0, len: len(cells), cap: len(cells), esz: 1}
		} else {
			buf = SliceVal{esz: 1}
		}
		e.callFunction(st, wfn, []Value{w.v, buf}, nil, c.ret)
	}
	m["fmt.Fprint"] = noPrint
	m["fmt.Fprintln"] = noPrint
	m["fmt.Printf"] = noPrint
	m["fmt.Println"] = noPrint
	m["runtime/debug.Stack"] = func(e *Engine, st *State, c *callCtx) { e.finish(st, c, SliceVal{esz: 1}) }
	m["errors.Is"] = func(e *Engine, st *State, c *callCtx) {
		err, tgt := c.args[0].(IfaceVal), c.args[1].(IfaceVal)
		if err.typ == nil || tgt.typ == nil {
			e.finish(st, c, e.ctx.Bool(err.typ == nil && tgt.typ == nil))
			return
		}
		fn := e.prog.ImportedPackage("errors").Func("is")
		e.callFunction(st, fn, []Value{err, tgt, e.ctx.True}, nil, c.ret)
	}

	// ----- os: the file entry points used by pkg/app/fs.go run against the in-memory tree of
	// harness/zzverif/memfs.go (plain Go, executed from SSA) -----
	for from, to := range map[string]string{
		"os.Open": "ZZOsOpen", "os.Stat": "ZZOsStat", "os.MkdirTemp": "ZZMkdirTemp", "os.MkdirAll": "ZZMkdirAll",
		"os.WriteFile": "ZZWriteFile", "os.RemoveAll": "ZZRemoveAll", "os.Chtimes": "ZZChtimes",
		"os.IsNotExist": "ZZIsNotExist", "os.IsPermission": "ZZIsPermission", "os.IsExist": "ZZIsExist",
		"(*os.File).Stat": "ZZFileStat", "(*os.File).Name": "ZZFileName", "(*os.File).Close": "ZZFileClose",
		"(*os.File).Read": "ZZFileRead", "(*os.File).ReadAt": "ZZFileReadAt", "(*os.File).Seek": "ZZFileSeek",
		"(*os.File).Readdir": "ZZFileReaddir",
	} {
		to := to
		m[from] = func(e *Engine, st *State, c *callCtx) {
			pkg := e.prog.ImportedPackage(hertz + "internal/zzverif")
			if pkg == nil || pkg.Func(to) == nil {
				e.unsupported(st, "file system call without the zzverif in-memory tree: "+to)
			}
			e.callFunction(st, pkg.Func(to), c.args, nil, c.ret)
		}
	}

	// html.EscapeString on concrete text (its replacer is built by a package initialiser)
	m["html.EscapeString"] = func(e *Engine, st *State, c *callCtx) {
		str, ok := e.concreteString(st, c.args[0].(StrVal))
		if !ok {
			e.unsupported(st, "html.EscapeString of symbolic text")
		}
		e.finish(st, c, e.constString(html.EscapeString(str)))
	}

	// ----- time -----
	m["time.Now"] = func(e *Engine, st *State, c *callCtx) {
		st.clock += 1000
		// wall: hasMonotonic bit set; ext: monotonic reading
		e.finish(st, c, AggVal{[]Value{e.ctx.BV(64, 1<<63), e.ctx.BV(64, uint64(st.clock)), PtrVal{}}})
	}
	m["time.Since"] = func(e *Engine, st *State, c *callCtx) {
		st.clock += 1000
		t := c.args[0].(AggVal)
		e.finish(st, c, e.ctx.Bin(OpSub, e.ctx.BV(64, uint64(st.clock)), t.slots[1].(*Term)))
	}
	m["time.Until"] = func(e *Engine, st *State, c *callCtx) {
		st.clock += 1000
		t := c.args[0].(AggVal)
		e.finish(st, c, e.ctx.Bin(OpSub, t.slots[1].(*Term), e.ctx.BV(64, uint64(st.clock))))
	}
	// timers never fire by themselves (no scheduler, no real time): AfterFunc/NewTimer return inert timers
	newTimer := func(e *Engine, st *State, c *callCtx, withChan bool) Value {
		tt := e.prog.ImportedPackage("time").Type("Timer").Type()
		id := e.allocType(st, tt)
		ch := e.newObj(st, &Object{kind: ObjChan, bufcap: 1, isTimer: true, timerActive: true})
		e.store(st, PtrVal{obj: id}, ChanVal{obj: ch})
		return PtrVal{obj: id}
	}
	timerChan := func(e *Engine, st *State, c *callCtx) *Object {
		p := c.args[0].(PtrVal)
		ch, ok := e.obj(st, p.obj).slots[p.off].(ChanVal)
		if !ok || ch.obj == 0 {
			e.unsupported(st, "timer without channel")
		}
		return e.wobj(st, ch.obj)
	}
	m["time.AfterFunc"] = func(e *Engine, st *State, c *callCtx) {
		t := newTimer(e, st, c, false)
		if d, ok := c.args[0].(*Term); ok && d.IsConst() && e.cfg.GoPolicy["@afterfunc"] == "fire" {
			// the callback runs once the modelled clock reaches the deadline and nothing else can happen
			p := t.(PtrVal)
			ch := e.obj(st, p.obj).slots[p.off].(ChanVal)
			wo := e.wobj(st, ch.obj)
			wo.hasAfter, wo.afterFn, wo.timerAt = true, c.args[1].(FuncVal), st.clock+d.Signed()
			st.afterTimers = append(st.afterTimers, ch.obj)
		}
		e.finish(st, c, t)
	}
	m["time.NewTimer"] = func(e *Engine, st *State, c *callCtx) { e.finish(st, c, newTimer(e, st, c, true)) }
	m["(*time.Timer).Stop"] = func(e *Engine, st *State, c *callCtx) {
		o := timerChan(e, st, c)
		was := o.timerActive
		o.timerActive = false
		e.finish(st, c, e.ctx.Bool(was))
	}
	m["(*time.Timer).Reset"] = func(e *Engine, st *State, c *callCtx) {
		o := timerChan(e, st, c)
		was := o.timerActive
		o.timerActive = true
		if o.hasAfter {
			d, ok := c.args[1].(*Term)
			if !ok || !d.IsConst() {
				e.unsupported(st, "(*time.Timer).Reset of an AfterFunc timer with a symbolic duration")
			}
			o.timerAt = st.clock + d.Signed()
		}
		e.finish(st, c, e.ctx.Bool(was))
	}
	// display-only parts of time.Time: the location and the printed form are outside every claim
	m["(time.Time).In"] = func(e *Engine, st *State, c *callCtx) { e.finish(st, c, c.args[0]) }
	m["(time.Time).String"] = func(e *Engine, st *State, c *callCtx) { e.finish(st, c, e.constString("<time>")) }
	// tickers: the channel stays armed; each fire advances the modelled clock by the period
	m["time.NewTicker"] = func(e *Engine, st *State, c *callCtx) {
		d, ok := c.args[0].(*Term)
		if !ok || !d.IsConst() || d.Signed() <= 0 {
			e.unsupported(st, "time.NewTicker with a symbolic or non-positive period")
		}
		tt := e.prog.ImportedPackage("time").Type("Ticker").Type()
		id := e.allocType(st, tt)
		ch := e.newObj(st, &Object{kind: ObjChan, bufcap: 1, isTimer: true, timerActive: true, tickPeriod: d.Signed()})
		e.store(st, PtrVal{obj: id}, ChanVal{obj: ch})
		e.finish(st, c, PtrVal{obj: id})
	}
	m["(*time.Ticker).Stop"] = func(e *Engine, st *State, c *callCtx) {
		timerChan(e, st, c).timerActive = false
		e.finish(st, c, nil)
	}
	m["(*time.Ticker).Reset"] = func(e *Engine, st *State, c *callCtx) {
		d, ok := c.args[1].(*Term)
		if !ok || !d.IsConst() || d.Signed() <= 0 {
			e.unsupported(st, "(*time.Ticker).Reset with a symbolic or non-positive period")
		}
		o := timerChan(e, st, c)
		o.timerActive, o.tickPeriod = true, d.Signed()
		e.finish(st, c, nil)
	}
	m["time.After"] = func(e *Engine, st *State, c *callCtx) {
		ch := e.newObj(st, &Object{kind: ObjChan, bufcap: 1, isTimer: true, timerActive: true})
		e.finish(st, c, ChanVal{obj: ch})
	}
	// time.Parse*: opaque, succeeds or fails nondeterministically (formatting/parsing of dates is
	// outside every claim; only the control flow around it is explored)
	timeParse := func(e *Engine, st *State, c *callCtx) {
		ok := e.ctx.FreshVar("timeparse-ok", 0)
		wall := e.ctx.FreshVar("time-wall", 64)
		ext := e.ctx.FreshVar("time-ext", 64)
		e.fork(st, []Alt{
			{ok, func(s *State) {
				e.finish(s, c, TupleVal{AggVal{[]Value{wall, ext, PtrVal{}}}, IfaceVal{}})
			}},
			{e.ctx.Not(ok), func(s *State) {
				e.finish(s, c, TupleVal{AggVal{[]Value{e.ctx.BV(64, 0), e.ctx.BV(64, 0), PtrVal{}}}, e.makeError(s, "<time.Parse error>")})
			}},
		})
	}
	m["time.Parse"] = timeParse
	m["time.ParseInLocation"] = timeParse

	// Date header: formatting real time is outside every claim; a fixed well-formed HTTP-date is used
	m[hertz+"internal/bytesconv.AppendHTTPDate"] = func(e *Engine, st *State, c *callCtx) {
		date := e.constString("Mon, 02 Jan 2006 15:04:05 GMT")
		b := e.prog.ImportedPackage("bytes")
		_ = b
		dst := c.args[0].(SliceVal)
		// append(dst, date...)
		add := e.strBytes(st, date)
		if dst.obj != 0 && dst.len+len(add) <= dst.cap {
			wo := e.wobj(st, dst.obj)
			copy(wo.slots[dst.off+dst.len:], add)
			dst.len += len(add)
			e.finish(st, c, dst)
			return
		}
		slots := append(append([]Value(nil), e.sliceSlots(st, dst)...), add...)
		id := e.allocMem(st, slots, "date")
		e.finish(st, c, SliceVal{obj: id, len: len(slots), cap: len(slots), esz: 1})
	}
	m[hertz+"pkg/protocol.UpdateServerDate"] = func(e *Engine, st *State, c *callCtx) {
		fn := e.prog.ImportedPackage(hertz + "pkg/protocol").Func("refreshServerDate")
		e.callFunction(st, fn, nil, nil, c.ret)
	}

	// ----- mcache -----
	// mcache: size-classed free lists that re-issue freed blocks (LIFO), so a block released too
	// early really is handed out again and a stale slice into it sees the new contents
	var mcacheMalloc func(e *Engine, st *State, c *callCtx, n int)
	m["github.com/bytedance/gopkg/lang/mcache.Malloc"] = func(e *Engine, st *State, c *callCtx) {
		if t, ok := c.args[0].(*Term); ok && !t.IsConst() {
			// symbolic size (e.g. a length parsed from symbolic digits): one path per feasible value
			e.forkOnTerm(st, t, 0, 1<<20, func(s *State, k int) { mcacheMalloc(e, s, c, k) },
				func(s *State) { e.unsupportedIn(s, "symbolic mcache.Malloc size out of 0..1Mi") })
			return
		}
		mcacheMalloc(e, st, c, e.argInt(st, c.args[0], "mcache.Malloc size"))
	}
	mcacheMalloc = func(e *Engine, st *State, c *callCtx, n int) {
		cp := n
		if extra, ok := c.args[1].(SliceVal); ok && extra.len > 0 {
			cp = e.argInt(st, e.sliceSlots(st, extra)[0], "mcache.Malloc cap")
		}
		p := 1
		for p < cp {
			p <<= 1
		}
		if cp == 0 {
			p = 0
		}
		key := -(p + 1)
		if l := st.pools[key]; len(l) > 0 {
			v := l[len(l)-1].(SliceVal)
			np := map[int][]Value{}
			for k, vv := range st.pools {
				np[k] = vv
			}
			np[key] = append([]Value(nil), l[:len(l)-1]...)
			st.pools = np
			e.finish(st, c, SliceVal{obj: v.obj, off: 0, len: n, cap: p, esz: 1})
			return
		}
		e.finish(st, c, e.makeSlice(st, types.Typ[types.Uint8], n, p))
	}
	m["github.com/bytedance/gopkg/lang/mcache.Free"] = func(e *Engine, st *State, c *callCtx) {
		b := c.args[0].(SliceVal)
		if b.obj > 0 && b.off == 0 && b.cap > 0 && b.cap&(b.cap-1) == 0 {
			key := -(b.cap + 1)
			np := map[int][]Value{}
			for k, vv := range st.pools {
				np[k] = vv
			}
			np[key] = append(append([]Value(nil), st.pools[key]...), b)
			st.pools = np
		}
		e.finish(st, c, nil)
	}

	m["math.Float64frombits"] = func(e *Engine, st *State, c *callCtx) {
		t := c.args[0].(*Term)
		if !t.IsConst() {
			e.unsupported(st, "symbolic Float64frombits")
		}
		e.finish(st, c, FloatVal{math.Float64frombits(t.val), 64})
	}
	m["math.Float64bits"] = func(e *Engine, st *State, c *callCtx) {
		e.finish(st, c, e.ctx.BV(64, math.Float64bits(c.args[0].(FloatVal).f)))
	}
	m["math.Float32frombits"] = func(e *Engine, st *State, c *callCtx) {
		t := c.args[0].(*Term)
		if !t.IsConst() {
			e.unsupported(st, "symbolic Float32frombits")
		}
		e.finish(st, c, FloatVal{float64(math.Float32frombits(uint32(t.val))), 32})
	}
	m["math.Float32bits"] = func(e *Engine, st *State, c *callCtx) {
		e.finish(st, c, e.ctx.BV(32, uint64(math.Float32bits(float32(c.args[0].(FloatVal).f)))))
	}

	// minimal reflect model: ValueOf on a value of a basic kind and Kind() on it (enough for
	// code that only asks "is this a string/int/float?"); everything else in reflect is unsupported
	m["reflect.ValueOf"] = func(e *Engine, st *State, c *callCtx) {
		iv := c.args[0].(IfaceVal)
		e.finish(st, c, AggVal{[]Value{iv, PtrVal{}, e.ctx.BV(64, 0)}})
	}
	m["(reflect.Value).Kind"] = func(e *Engine, st *State, c *callCtx) {
		rv := c.args[0].(AggVal)
		iv, ok := rv.slots[0].(IfaceVal)
		if !ok {
			e.unsupported(st, "reflect.Value.Kind on a value not built by the reflect.ValueOf model")
		}
		kind := uint64(0) // Invalid
		if iv.typ != nil {
			switch u := iv.typ.Underlying().(type) {
			case *types.Basic:
				switch u.Kind() {
				case types.Bool:
					kind = 1
				case types.Int:
					kind = 2
				case types.Int8:
					kind = 3
				case types.Int16:
					kind = 4
				case types.Int32:
					kind = 5
				case types.Int64:
					kind = 6
				case types.Uint:
					kind = 7
				case types.Uint8:
					kind = 8
				case types.Uint16:
					kind = 9
				case types.Uint32:
					kind = 10
				case types.Uint64:
					kind = 11
				case types.Uintptr:
					kind = 12
				case types.Float32:
					kind = 13
				case types.Float64:
					kind = 14
				case types.String:
					kind = 24
				default:
					e.unsupported(st, "reflect.Kind of "+iv.typ.String())
				}
			case *types.Array:
				kind = 17
			case *types.Chan:
				kind = 18
			case *types.Signature:
				kind = 19
			case *types.Map:
				kind = 21
			case *types.Slice:
				kind = 23
			case *types.Struct:
				kind = 25
			default:
				// pointers and interfaces would need Elem(): not modelled
				e.unsupported(st, "reflect.Kind of "+iv.typ.String())
			}
		}
		e.finish(st, c, e.ctx.BV(64, kind))
	}

	// more of reflect.Value on values built by the ValueOf model (slices, strings, basic kinds)
	reflIface := func(e *Engine, st *State, c *callCtx, what string) (IfaceVal, bool) {
		rv, ok := c.args[0].(AggVal)
		if ok {
			if iv, ok2 := rv.slots[0].(IfaceVal); ok2 {
				return iv, true
			}
		}
		e.unsupported(st, "reflect.Value."+what+" on a value not built by the reflect.ValueOf model")
		return IfaceVal{}, false
	}
	m["(reflect.Value).IsValid"] = func(e *Engine, st *State, c *callCtx) {
		iv, _ := reflIface(e, st, c, "IsValid")
		e.finish(st, c, e.ctx.Bool(iv.typ != nil))
	}
	m["(reflect.Value).Len"] = func(e *Engine, st *State, c *callCtx) {
		iv, _ := reflIface(e, st, c, "Len")
		switch x := iv.v.(type) {
		case SliceVal:
			e.finish(st, c, e.intVal(x.len))
		case StrVal:
			e.finish(st, c, e.intVal(x.len))
		case MapVal:
			n := 0
			if x.obj != 0 {
				n = len(e.obj(st, x.obj).entries)
			}
			e.finish(st, c, e.intVal(n))
		default:
			e.goPanic(st, "reflect: call of reflect.Value.Len on a value that has no length")
		}
	}
	m["(reflect.Value).CanInterface"] = func(e *Engine, st *State, c *callCtx) {
		iv, _ := reflIface(e, st, c, "CanInterface")
		if iv.typ == nil {
			e.goPanic(st, "reflect: call of reflect.Value.CanInterface on zero Value")
		}
		e.finish(st, c, e.ctx.True)
	}
	m["(reflect.Value).Interface"] = func(e *Engine, st *State, c *callCtx) {
		iv, _ := reflIface(e, st, c, "Interface")
		if iv.typ == nil {
			e.goPanic(st, "reflect: call of reflect.Value.Interface on zero Value")
		}
		e.finish(st, c, iv)
	}
	m["(reflect.Value).String"] = func(e *Engine, st *State, c *callCtx) {
		iv, _ := reflIface(e, st, c, "String")
		if sv, ok := iv.v.(StrVal); ok {
			e.finish(st, c, sv)
			return
		}
		e.unsupported(st, "reflect.Value.String on a non-string kind")
	}
	m["(reflect.Value).IsNil"] = func(e *Engine, st *State, c *callCtx) {
		iv, _ := reflIface(e, st, c, "IsNil")
		switch x := iv.v.(type) {
		case SliceVal:
			e.finish(st, c, e.ctx.Bool(x.obj == 0))
		case MapVal:
			e.finish(st, c, e.ctx.Bool(x.obj == 0))
		case PtrVal:
			e.finish(st, c, e.ctx.Bool(x.obj == 0))
		default:
			e.unsupported(st, "reflect.Value.IsNil on this kind")
		}
	}
	m["(reflect.Value).IsZero"] = func(e *Engine, st *State, c *callCtx) {
		iv, _ := reflIface(e, st, c, "IsZero")
		switch x := iv.v.(type) {
		case SliceVal:
			e.finish(st, c, e.ctx.Bool(x.obj == 0))
		case MapVal:
			e.finish(st, c, e.ctx.Bool(x.obj == 0))
		case StrVal:
			e.finish(st, c, e.ctx.Bool(x.len == 0))
		case *Term:
			e.finish(st, c, e.ctx.Eq(x, e.ctx.BV(x.w, 0)))
		default:
			e.unsupported(st, "reflect.Value.IsZero on this kind")
		}
	}

	registerIntrinsics(m)
	registerHavoc(m)
	return m
}

var modelPrefixes = []string{
	hertz + "pkg/common/hlog.",
	"(*" + hertz + "pkg/common/hlog.defaultLogger).",
	"(*" + hertz + "pkg/common/hlog.systemLogger).",
	hertz + "cmd/hz/util/logs.", // the hz tool's logger
}

func hlogFatal(e *Engine, st *State, c *callCtx) {
	e.goPanic(st, "hlog.Fatal called (process would exit)")
}

func (e *Engine) findModel(name string) (modelFn, bool) {
	if m, ok := e.models[name]; ok {
		return m, true
	}
	// reflect.Value has a model-specific representation: a method without a model must not run
	// from SSA against it
	if strings.HasPrefix(name, "(reflect.Value).") || strings.HasPrefix(name, "(*reflect.Value).") {
		return func(e *Engine, st *State, c *callCtx) { e.unsupported(st, "no model for "+name) }, true
	}
	for _, p := range modelPrefixes {
		if strings.HasPrefix(name, p) {
			rest := name[len(p):]
			if rest == "init" || strings.HasPrefix(rest, "init#") || rest == "SystemLogger" || rest == "DefaultLogger" || rest == "SetSystemLogger" || rest == "SetLogger" || strings.HasPrefix(rest, "Level") {
				return nil, false
			}
			if strings.Contains(rest, "Fatal") {
				return hlogFatal, true
			}
			return nop, true
		}
	}
	return nil, false
}

// formatCells formats like fmt.Sprintf and returns the byte cells of the result. Concrete
// arguments go through the real fmt.Sprintf; a string or byte-slice argument with symbolic bytes
// is supported under a plain %s or %v verb (its cells are spliced into the output).
func (e *Engine) formatCells(st *State, fs StrVal, argv SliceVal) ([]Value, bool) {
	format, ok := e.concreteString(st, fs)
	if !ok {
		return nil, false
	}
	args := e.sliceSlots(st, argv)
	allConcrete := true
	goArgs := make([]interface{}, len(args))
	for i, a := range args {
		gv, ok2 := e.goValue(st, a)
		if !ok2 {
			allConcrete = false
			break
		}
		goArgs[i] = gv
	}
	if allConcrete {
		return e.byteVals([]byte(fmt.Sprintf(format, goArgs...))), true
	}
	// mixed: walk the format; only plain verbs
	var out []Value
	ai := 0
	for i := 0; i < len(format); i++ {
		ch := format[i]
		if ch != '%' {
			out = append(out, e.ctx.BV(8, uint64(ch)))
			continue
		}
		if i+1 >= len(format) {
			return nil, false
		}
		i++
		verb := format[i]
		if verb == '%' {
			out = append(out, e.ctx.BV(8, '%'))
			continue
		}
		if ai >= len(args) {
			return nil, false
		}
		a := args[ai]
		ai++
		if gv, ok2 := e.goValue(st, a); ok2 {
			switch verb {
			case 's', 'v', 'd', 'q', 'x':
				out = append(out, e.byteVals([]byte(fmt.Sprintf("%"+string(verb), gv)))...)
				continue
			}
			return nil, false
		}
		if verb != 's' && verb != 'v' {
			return nil, false
		}
		iv, isI := a.(IfaceVal)
		if !isI || iv.typ == nil {
			return nil, false
		}
		if iv.typ.String() == "time.Time" {
			// printed form of an instant: display only, outside every claim
			out = append(out, e.byteVals([]byte("<time>"))...)
			continue
		}
		switch x := iv.v.(type) {
		case StrVal:
			// plain string only: a named type could carry a String/Error method
			if _, isBasic := iv.typ.(*types.Basic); !isBasic {
				return nil, false
			}
			out = append(out, e.strBytes(st, x)...)
		case SliceVal:
			if verb != 's' || x.esz != 1 {
				return nil, false
			}
			if _, isBytes := iv.typ.(*types.Slice); !isBytes {
				return nil, false
			}
			out = append(out, e.sliceSlots(st, x)...)
		default:
			return nil, false
		}
	}
	if ai != len(args) {
		return nil, false
	}
	return out, true
}
