package main

import (
	"fmt"
	"os"
	"go/token"
	"sort"
	"go/types"

	"golang.org/x/tools/go/ssa"
)

// concretizeOperand forks on the value of a symbolic integer operand (held in register v of the
// top frame) over [lo,hi]; each child re-executes the current instruction with the operand
// concrete. Values outside the range take the oob continuation.
// candidateValues lists the values of t in [lo,hi] that have to be considered: all of a narrow
// range, or - for a wide range - the feasible ones as enumerated by the solver (complete, or the
// path ends unsupported).
func (e *Engine) candidateValues(st *State, t *Term, lo, hi int) []int {
	c := e.ctx
	var cand []int
	if hi-lo+1 > 40 {
		rng := c.And(c.Cmp(OpSle, c.BV(t.w, uint64(lo)), t), c.Cmp(OpSle, t, c.BV(t.w, uint64(hi))))
		e.solver.SyncTo(st.pcList())
		excl := rng
		complete := false
		enumCap := 24
		if v, ok := e.params["ENUMCAP"]; ok && v > 0 {
			enumCap = v
		}
		for k := 0; k < enumCap; k++ {
			r, m := e.solver.CheckModel(excl, e.ctx.termVars(t))
			if r == Unsat {
				complete = true
				break
			}
			if r != Sat {
				e.stats.SolverUnknown++
				e.unsupported(st, "solver unknown while enumerating a symbolic index")
			}
			v := int(sext(e.ctx.Eval(t, m, map[*Term]uint64{}), t.w))
			cand = append(cand, v)
			excl = c.And(excl, c.Not(c.Eq(t, c.BV(t.w, uint64(v)))))
		}
		if !complete {
			e.unsupported(st, fmt.Sprintf("symbolic index/length in %d..%d has more than %d feasible values", lo, hi, enumCap))
		}
		sort.Ints(cand)
	} else {
		for i := lo; i <= hi; i++ {
			cand = append(cand, i)
		}
	}
	return cand
}

// forkOnTerm continues with every feasible concrete value k of t in [lo,hi] (cont runs on the
// child state with t == k on its path); values outside take oob.
func (e *Engine) forkOnTerm(st *State, t *Term, lo, hi int, cont func(s *State, k int), oob func(s *State)) {
	c := e.ctx
	var alts []Alt
	for _, i := range e.candidateValues(st, t, lo, hi) {
		k := i
		alts = append(alts, Alt{c.Eq(t, c.BV(t.w, uint64(k))), func(s *State) { cont(s, k) }})
	}
	oobCond := c.Or(c.Cmp(OpSlt, t, c.BV(t.w, uint64(lo))), c.Cmp(OpSlt, c.BV(t.w, uint64(hi)), t))
	alts = append(alts, Alt{oobCond, oob})
	e.fork(st, alts)
}

func (e *Engine) concretizeOperand(st *State, v ssa.Value, t *Term, lo, hi int, oob func(s *State)) {
	c := e.ctx
	cand := e.candidateValues(st, t, lo, hi)
	var alts []Alt
	inRange := c.False
	for _, i := range cand {
		k := c.BV(t.w, uint64(i))
		cond := c.Eq(t, k)
		inRange = c.Or(inRange, cond)
		alts = append(alts, Alt{cond, func(s *State) {
			f := s.top()
			if _, isReg := f.info.idx[v]; isReg {
				e.set(f, v, k)
			} else {
				panic(engineErr{"concretize of non-register operand"})
			}
		}})
	}
	// out of range: signed comparison on 64-bit ints
	var oobCond *Term
	if hi >= lo {
		oobCond = c.Or(c.Cmp(OpSlt, t, c.BV(t.w, uint64(lo))), c.Cmp(OpSlt, c.BV(t.w, uint64(hi)), t))
	} else {
		oobCond = c.True
	}
	alts = append(alts, Alt{oobCond, oob})
	e.fork(st, alts)
}

func (e *Engine) oobPanic(msg string) func(s *State) {
	return func(s *State) { e.goPanicIn(s, msg) }
}

func onlyLoads(ins *ssa.IndexAddr) bool {
	refs := ins.Referrers()
	if refs == nil || len(*refs) == 0 {
		return false
	}
	for _, r := range *refs {
		u, ok := r.(*ssa.UnOp)
		if !ok || u.Op != token.MUL {
			if _, isDbg := r.(*ssa.DebugRef); isDbg {
				continue
			}
			return false
		}
	}
	return true
}

func (e *Engine) execIndexAddr(st *State, f *Frame, ins *ssa.IndexAddr) {
	x := e.get(st, f, ins.X)
	idx := e.get(st, f, ins.Index).(*Term)
	if idx.w != 64 {
		_, signed, _ := intType(ins.Index.Type())
		if signed {
			idx = e.ctx.Sext(idx, 64)
		} else {
			idx = e.ctx.Zext(idx, 64)
		}
	}
	var obj, base, n, esz int
	switch xv := x.(type) {
	case SliceVal:
		obj, base, n, esz = xv.obj, xv.off, xv.len, xv.esz
	case PtrVal:
		if xv.obj == 0 {
			e.goPanic(st, "runtime error: invalid memory address or nil pointer dereference")
			return
		}
		at := ins.X.Type().Underlying().(*types.Pointer).Elem().Underlying().(*types.Array)
		obj, base, n, esz = xv.obj, xv.off, int(at.Len()), e.slotsOf(at.Elem())
	default:
		panic(engineErr{fmt.Sprintf("IndexAddr on %T", x)})
	}
	if idx.IsConst() {
		i := int(idx.Signed())
		if i < 0 || i >= n {
			e.goPanic(st, fmt.Sprintf("runtime error: index out of range [%d] with length %d", i, n))
			return
		}
		e.set(f, ins, PtrVal{obj: obj, off: base + i*esz})
		f.pc++
		return
	}
	if n == 0 {
		e.goPanic(st, "runtime error: index out of range with length 0")
		return
	}
	if esz == 1 && onlyLoads(ins) && n > 1 {
		c := e.ctx
		inb := c.Cmp(OpUlt, idx, c.BV(64, uint64(n)))
		e.fork(st, []Alt{
			{inb, func(s *State) {
				ff := s.top()
				e.set(ff, ins, symPtr{obj: obj, off: base, idx: idx, cnt: n})
				ff.pc++
			}},
			{c.Not(inb), e.oobPanic("runtime error: index out of range (symbolic index)")},
		})
		return
	}
	e.concretizeOperand(st, ins.Index, e.get(st, f, ins.Index).(*Term), 0, n-1, e.oobPanic("runtime error: index out of range (symbolic index)"))
}

func (e *Engine) execIndex(st *State, f *Frame, ins *ssa.Index) {
	x := e.get(st, f, ins.X)
	idx := e.get(st, f, ins.Index).(*Term)
	switch xv := x.(type) {
	case AggVal:
		at := ins.X.Type().Underlying().(*types.Array)
		esz := e.slotsOf(at.Elem())
		n := int(at.Len())
		if idx.IsConst() {
			i := int(idx.Signed())
			if i < 0 || i >= n {
				e.goPanic(st, "runtime error: index out of range")
				return
			}
			e.set(f, ins, e.unflatten(xv.slots[i*esz:(i+1)*esz], at.Elem()))
			f.pc++
			return
		}
		e.concretizeOperand(st, ins.Index, idx, 0, n-1, e.oobPanic("runtime error: index out of range"))
	case StrVal:
		e.stringIndex(st, f, ins, xv, ins.Index, idx)
	default:
		panic(engineErr{fmt.Sprintf("Index on %T", x)})
	}
}

func (e *Engine) stringIndex(st *State, f *Frame, ins ssa.Value, s StrVal, idxV ssa.Value, idx *Term) {
	if idx.w != 64 {
		_, signed, _ := intType(idxV.Type())
		if signed {
			idx = e.ctx.Sext(idx, 64)
		} else {
			idx = e.ctx.Zext(idx, 64)
		}
	}
	if idx.IsConst() {
		i := int(idx.Signed())
		if i < 0 || i >= s.len {
			e.goPanic(st, fmt.Sprintf("runtime error: index out of range [%d] with length %d", i, s.len))
			return
		}
		e.set(f, ins, e.obj(st, s.obj).slots[s.off+i])
		f.pc++
		return
	}
	if s.len == 0 {
		e.goPanic(st, "runtime error: index out of range with length 0")
		return
	}
	c := e.ctx
	inb := c.Cmp(OpUlt, idx, c.BV(64, uint64(s.len)))
	cells := e.strBytes(st, s)
	e.fork(st, []Alt{
		{inb, func(sn *State) {
			ff := sn.top()
			e.set(ff, ins, e.selectTree(cells, idx, 0, len(cells)))
			ff.pc++
		}},
		{c.Not(inb), e.oobPanic("runtime error: index out of range (symbolic string index)")},
	})
}

func (e *Engine) execLookup(st *State, f *Frame, ins *ssa.Lookup) {
	x := e.get(st, f, ins.X)
	switch xv := x.(type) {
	case StrVal:
		e.stringIndex(st, f, ins, xv, ins.Index, e.get(st, f, ins.Index).(*Term))
	case MapVal:
		mt := ins.X.Type().Underlying().(*types.Map)
		key := e.get(st, f, ins.Index)
		zero := e.zeroValue(mt.Elem())
		deliver := func(s *State, v Value, ok bool) {
			ff := s.top()
			if ins.CommaOk {
				e.set(ff, ins, TupleVal{v, e.ctx.Bool(ok)})
			} else {
				e.set(ff, ins, v)
			}
			ff.pc++
		}
		if xv.obj == 0 {
			deliver(st, zero, false)
			return
		}
		o := e.obj(st, xv.obj)
		conds := make([]*Term, len(o.entries))
		allConst := true
		for i, en := range o.entries {
			conds[i] = e.equalValues(st, en.k, key, mt.Key())
			if conds[i].IsTrue() {
				deliver(st, e.unflatten(en.v, mt.Elem()), true)
				return
			}
			if !conds[i].IsFalse() {
				allConst = false
			}
		}
		if allConst {
			deliver(st, zero, false)
			return
		}
		var alts []Alt
		none := e.ctx.True
		for i, en := range o.entries {
			if conds[i].IsFalse() {
				continue
			}
			val := e.unflatten(en.v, mt.Elem())
			alts = append(alts, Alt{e.ctx.And(none, conds[i]), func(s *State) { deliver(s, val, true) }})
			none = e.ctx.And(none, e.ctx.Not(conds[i]))
		}
		alts = append(alts, Alt{none, func(s *State) { deliver(s, zero, false) }})
		e.fork(st, alts)
	default:
		panic(engineErr{fmt.Sprintf("Lookup on %T", x)})
	}
}

func (e *Engine) execMapUpdate(st *State, f *Frame, ins *ssa.MapUpdate) {
	m := e.get(st, f, ins.Map).(MapVal)
	if m.obj == 0 {
		e.goPanic(st, "assignment to entry in nil map")
		return
	}
	mt := ins.Map.Type().Underlying().(*types.Map)
	key := e.get(st, f, ins.Key)
	val := flatten(nil, e.get(st, f, ins.Value))
	o := e.obj(st, m.obj)
	for i, en := range o.entries {
		c := e.equalValues(st, en.k, key, mt.Key())
		if c.IsTrue() {
			wo := e.wobj(st, m.obj)
			wo.entries[i].v = val
			f.pc++
			return
		}
		if !c.IsFalse() {
			e.unsupported(st, "map update with symbolic key comparison")
		}
	}
	wo := e.wobj(st, m.obj)
	wo.entries = append(wo.entries, mapEntry{k: key, v: val})
	f.pc++
}

func (e *Engine) mapDelete(st *State, m MapVal, key Value) {
	if m.obj == 0 {
		return
	}
	o := e.obj(st, m.obj)
	for i, en := range o.entries {
		c := e.equalValues(st, en.k, key, nil)
		if c.IsTrue() {
			wo := e.wobj(st, m.obj)
			wo.entries = append(append([]mapEntry(nil), wo.entries[:i]...), wo.entries[i+1:]...)
			return
		}
		if !c.IsFalse() {
			e.unsupported(st, "map delete with symbolic key comparison")
		}
	}
}

func (e *Engine) execSlice(st *State, f *Frame, ins *ssa.Slice) {
	x := e.get(st, f, ins.X)
	var obj, base, ln, cp, esz int
	isStr := false
	nilSlice := false
	switch xv := x.(type) {
	case SliceVal:
		obj, base, ln, cp, esz = xv.obj, xv.off, xv.len, xv.cap, xv.esz
		nilSlice = xv.obj == 0
	case StrVal:
		obj, base, ln, cp, esz = xv.obj, xv.off, xv.len, xv.len, 1
		isStr = true
	case PtrVal:
		if xv.obj == 0 {
			e.goPanic(st, "runtime error: invalid memory address or nil pointer dereference")
			return
		}
		at := ins.X.Type().Underlying().(*types.Pointer).Elem().Underlying().(*types.Array)
		obj, base, ln, cp, esz = xv.obj, xv.off, int(at.Len()), int(at.Len()), e.slotsOf(at.Elem())
	default:
		panic(engineErr{fmt.Sprintf("Slice on %T", x)})
	}
	lo, hi, mx := 0, ln, cp
	msg := "runtime error: slice bounds out of range"
	// concretize symbolic bounds one at a time (re-executing this instruction)
	if ins.Max != nil {
		t := e.get(st, f, ins.Max).(*Term)
		if !t.IsConst() {
			e.concretizeOperand(st, ins.Max, t, 0, cp, e.oobPanic(msg))
			return
		}
		mx = int(t.Signed())
		if mx < 0 || mx > cp {
			e.goPanic(st, msg)
			return
		}
	}
	if ins.High != nil {
		t := e.get(st, f, ins.High).(*Term)
		if !t.IsConst() {
			e.concretizeOperand(st, ins.High, t, 0, mx, e.oobPanic(msg))
			return
		}
		hi = int(t.Signed())
		if hi < 0 || hi > mx {
			e.goPanic(st, fmt.Sprintf("%s [:%d] with capacity %d", msg, hi, mx))
			return
		}
	} else if isStr || true {
		hi = ln
		if ins.Max != nil && hi > mx {
			e.goPanic(st, msg)
			return
		}
	}
	if ins.Low != nil {
		t := e.get(st, f, ins.Low).(*Term)
		if !t.IsConst() {
			e.concretizeOperand(st, ins.Low, t, 0, hi, e.oobPanic(msg))
			return
		}
		lo = int(t.Signed())
		if lo < 0 || lo > hi {
			e.goPanic(st, fmt.Sprintf("%s [%d:%d]", msg, lo, hi))
			return
		}
	}
	if isStr {
		if hi-lo == 0 {
			e.set(f, ins, StrVal{})
		} else {
			e.set(f, ins, StrVal{obj: obj, off: base + lo, len: hi - lo})
		}
	} else {
		if nilSlice {
			e.set(f, ins, SliceVal{esz: esz})
		} else {
			e.set(f, ins, SliceVal{obj: obj, off: base + lo*esz, len: hi - lo, cap: mx - lo, esz: esz})
		}
	}
	f.pc++
}

func (e *Engine) execMakeSlice(st *State, f *Frame, ins *ssa.MakeSlice) {
	lt := e.get(st, f, ins.Len).(*Term)
	ct := e.get(st, f, ins.Cap).(*Term)
	if !lt.IsConst() {
		e.concretizeOperand(st, ins.Len, lt, 0, 1<<20, func(s *State) {
			if os.Getenv("SYMGO_DEBUG") != "" {
				fmt.Fprintf(os.Stderr, "make length term: %s\n", lt.SMT())
			}
			e.unsupportedIn(s, "symbolic make length out of 0..1Mi")
		})
		return
	}
	if !ct.IsConst() {
		e.concretizeOperand(st, ins.Cap, ct, 0, 1<<20, func(s *State) { e.unsupportedIn(s, "symbolic make cap out of 0..1Mi") })
		return
	}
	n, cp := int(lt.Signed()), int(ct.Signed())
	if n < 0 || cp < n {
		e.goPanic(st, "runtime error: makeslice: len out of range")
		return
	}
	if cp > 1<<24 {
		e.unsupported(st, "make of huge slice")
	}
	et := ins.Type().Underlying().(*types.Slice).Elem()
	e.set(f, ins, e.makeSlice(st, et, n, cp))
	f.pc++
}

func (e *Engine) unsupportedIn(st *State, why string) {
	defer func() {
		if r := recover(); r != nil {
			if _, ok := r.(pathEnd); ok {
				return
			}
			panic(r)
		}
	}()
	e.unsupported(st, why)
}

func (e *Engine) makeSlice(st *State, et types.Type, n, cp int) SliceVal {
	esz := e.slotsOf(et)
	slots := make([]Value, 0, cp*esz)
	if cp > 0 {
		one := e.zeroSlots(nil, et)
		if len(one) == 1 {
			slots = slots[:cp]
			z := one[0]
			for i := range slots {
				slots[i] = z
			}
		} else {
			for i := 0; i < cp; i++ {
				slots = append(slots, one...)
			}
		}
	}
	id := e.allocMem(st, slots, "slice")
	return SliceVal{obj: id, off: 0, len: n, cap: cp, esz: esz}
}

// ---------- type assertions ----------

func (e *Engine) implements(dyn types.Type, iface *types.Interface) bool {
	return types.Implements(dyn, iface)
}

func (e *Engine) execTypeAssert(st *State, f *Frame, ins *ssa.TypeAssert) {
	x := e.get(st, f, ins.X).(IfaceVal)
	T := ins.AssertedType
	ok := false
	var res Value
	if it, isIface := T.Underlying().(*types.Interface); isIface {
		ok = x.typ != nil && e.implements(x.typ, it)
		if ok {
			res = x
		} else {
			res = IfaceVal{}
		}
	} else {
		ok = x.typ != nil && types.Identical(x.typ, T)
		if ok {
			res = x.v
		} else {
			res = e.zeroValue(T)
		}
	}
	if ins.CommaOk {
		e.set(f, ins, TupleVal{res, e.ctx.Bool(ok)})
		f.pc++
		return
	}
	if !ok {
		tn := "nil"
		if x.typ != nil {
			tn = x.typ.String()
		}
		e.goPanic(st, "interface conversion: interface is "+tn+", not "+T.String())
		return
	}
	e.set(f, ins, res)
	f.pc++
}

// ---------- range / next ----------

func (e *Engine) execRange(st *State, f *Frame, ins *ssa.Range) {
	x := e.get(st, f, ins.X)
	switch xv := x.(type) {
	case StrVal:
		e.set(f, ins, &IterVal{isStr: true, str: xv})
	case MapVal:
		it := &IterVal{mobj: xv.obj}
		if xv.obj != 0 {
			for _, en := range e.obj(st, xv.obj).entries {
				it.keys = append(it.keys, en.k)
			}
		}
		e.set(f, ins, it)
	default:
		panic(engineErr{fmt.Sprintf("Range on %T", x)})
	}
	f.pc++
}

func (e *Engine) execNext(st *State, f *Frame, ins *ssa.Next) {
	it0 := e.get(st, f, ins.Iter).(*IterVal)
	it := *it0 // iterators are values in registers: copy on advance
	c := e.ctx
	if ins.IsString {
		if it.pos >= it.str.len {
			e.set(f, ins, TupleVal{c.False, c.BV(64, 0), c.BV(32, 0)})
			f.pc++
			return
		}
		bs := e.strBytes(st, it.str)
		b0, ok := bs[it.pos].(*Term)
		if !ok {
			e.unsupported(st, "range over string: non-term byte")
		}
		if !b0.IsConst() {
			// symbolic lead byte: an ASCII byte is a one-byte rune; multi-byte sequences with a
			// symbolic lead byte are not decoded (that branch ends as unsupported if feasible)
			ascii := c.Cmp(OpUlt, b0, c.BV(8, 0x80))
			pos := it.pos
			iter := ins.Iter
			e.fork(st, []Alt{
				{ascii, func(s *State) {
					fr := s.top()
					it2 := *(e.get(s, fr, iter).(*IterVal))
					it2.pos = pos + 1
					e.set(fr, iter, &it2)
					e.set(fr, ins, TupleVal{c.True, c.BV(64, uint64(pos)), c.Zext(b0, 32)})
					fr.pc++
				}},
				{c.Not(ascii), func(s *State) {
					e.unsupported(s, "range over string: symbolic non-ASCII lead byte")
				}},
			})
			return
		}
		// decode rune concretely
		buf := []byte{}
		for i := it.pos; i < it.str.len && i < it.pos+4; i++ {
			t := bs[i].(*Term)
			if !t.IsConst() {
				break
			}
			buf = append(buf, byte(t.val))
		}
		r, size := decodeRune(buf)
		pos := it.pos
		it.pos += size
		e.set(f, ins.Iter, &it)
		e.set(f, ins, TupleVal{c.True, c.BV(64, uint64(pos)), c.BV(32, uint64(r))})
		f.pc++
		return
	}
	// map
	mt := ins.Iter.(*ssa.Range).X.Type().Underlying().(*types.Map)
	for it.pos < len(it.keys) {
		k := it.keys[it.pos]
		it.pos++
		// entry must still exist
		o := e.obj(st, it.mobj)
		for _, en := range o.entries {
			if e.equalValues(st, en.k, k, mt.Key()).IsTrue() {
				e.set(f, ins.Iter, &it)
				e.set(f, ins, TupleVal{c.True, k, e.unflatten(en.v, mt.Elem())})
				f.pc++
				return
			}
		}
	}
	e.set(f, ins.Iter, &it)
	e.set(f, ins, TupleVal{c.False, e.zeroValue(mt.Key()), e.zeroValue(mt.Elem())})
	f.pc++
}

func decodeRune(b []byte) (rune, int) {
	s := string(b)
	for _, r := range s {
		n := len(string(r))
		if r == 0xFFFD {
			// invalid encoding consumes one byte
			if len(b) >= 3 && b[0] == 0xEF && b[1] == 0xBF && b[2] == 0xBD {
				return r, 3
			}
			return r, 1
		}
		return r, n
	}
	return 0xFFFD, 1
}

// ---------- select ----------

func (e *Engine) execSelect(st *State, f *Frame, ins *ssa.Select) {
	c := e.ctx
	nrecv := 0
	for _, s := range ins.States {
		if s.Dir == types.RecvOnly {
			nrecv++
		}
	}
	mk := func(idx int, recvOK bool, ridx int, rv Value) TupleVal {
		t := TupleVal{c.BV(64, uint64(int64(idx))), c.Bool(recvOK)}
		ri := 0
		for _, s := range ins.States {
			if s.Dir == types.RecvOnly {
				et := s.Chan.Type().Underlying().(*types.Chan).Elem()
				if ri == ridx && rv != nil {
					t = append(t, rv)
				} else {
					t = append(t, e.zeroValue(et))
				}
				ri++
			}
		}
		return t
	}
	ri := 0
	for i, s := range ins.States {
		ch := e.get(st, f, s.Chan).(ChanVal)
		myri := ri
		if s.Dir == types.RecvOnly {
			ri++
		}
		if ch.obj == 0 {
			continue
		}
		o := e.obj(st, ch.obj)
		if s.Dir == types.RecvOnly {
			if len(o.buf) > 0 {
				wo := e.wobj(st, ch.obj)
				v := wo.buf[0]
				wo.buf = wo.buf[1:]
				e.set(f, ins, mk(i, true, myri, v))
				f.pc++
				return
			}
			if o.closed {
				e.set(f, ins, mk(i, false, myri, nil))
				f.pc++
				return
			}
		} else {
			if o.closed {
				e.goPanic(st, "send on closed channel")
				return
			}
			if len(o.buf) < o.bufcap {
				wo := e.wobj(st, ch.obj)
				wo.buf = append(wo.buf, e.get(st, f, s.Send))
				e.set(f, ins, mk(i, false, -1, nil))
				f.pc++
				return
			}
		}
	}
	if !ins.Blocking {
		e.set(f, ins, mk(-1, false, -1, nil))
		f.pc++
		return
	}
	// nothing is ready: a goroutine parked by the "lazy" policy gets to run now, then the
	// select is evaluated again
	if e.runLazyGo(st, ins) {
		return
	}
	// nothing is ready and nobody else runs: the only thing that can happen is that an active
	// timer fires (the wait times out)
	ri = 0
	for i, s := range ins.States {
		myri := ri
		if s.Dir == types.RecvOnly {
			ri++
		} else {
			continue
		}
		ch := e.get(st, f, s.Chan).(ChanVal)
		if ch.obj == 0 {
			continue
		}
		if o := e.obj(st, ch.obj); o.isTimer && o.timerActive && !o.hasAfter {
			st.clock += e.fireTimer(st, ch.obj)
			now := AggVal{[]Value{e.ctx.BV(64, 1<<63), e.ctx.BV(64, uint64(st.clock)), PtrVal{}}}
			e.set(f, ins, mk(i, true, myri, now))
			f.pc++
			return
		}
	}
	if e.fireAfterFunc(st, ins) {
		return
	}
	e.unsupported(st, "blocking select")
}

// fireAfterFunc is what happens at a blocked receive/select once no parked goroutine is left
// and no timer channel of the wait itself is armed, under the "@afterfunc": "fire" policy:
// the armed time.AfterFunc timer with the earliest deadline fires (the modelled clock jumps to
// its deadline, its callback runs, the blocked instruction is executed again); when no such
// timer is left and the blocked code is a lazily scheduled goroutine, that goroutine stays
// blocked for good: its frames are dropped (its deferred calls do not run) and the instruction
// at which its spawner was blocked is executed again.
func (e *Engine) fireAfterFunc(st *State, at ssa.Instruction) bool {
	if e.cfg.GoPolicy["@afterfunc"] != "fire" {
		return false
	}
	best := -1
	for _, id := range st.afterTimers {
		o := e.obj(st, id)
		if o.hasAfter && o.timerActive && (best < 0 || o.timerAt < e.obj(st, best).timerAt) {
			best = id
		}
	}
	if best >= 0 {
		wo := e.wobj(st, best)
		wo.timerActive = false
		if wo.timerAt > st.clock {
			st.clock = wo.timerAt
		}
		st.notes = append(st.notes, fmt.Sprintf("AfterFunc timer fires at %d ms", st.clock/1000000))
		e.callValue(st, wo.afterFn, nil, retRerun, at)
		return true
	}
	if n := len(st.lazyBase); n > 0 {
		base := st.lazyBase[n-1]
		st.lazyBase = st.lazyBase[:n-1]
		st.frames = st.frames[:base]
		st.notes = append(st.notes, "a lazily scheduled goroutine stays blocked for good")
		return true
	}
	return false
}

// fireTimer fires the armed timer/ticker channel obj and returns the time that passes (ns): a
// timer is disarmed and 1ms passes; a ticker stays armed and its period passes.
func (e *Engine) fireTimer(st *State, obj int) int64 {
	wo := e.wobj(st, obj)
	if wo.tickPeriod > 0 {
		return wo.tickPeriod
	}
	wo.timerActive = false
	return 1000000
}

// ---------- calls ----------

func (e *Engine) resolveCall(st *State, f *Frame, cc *ssa.CallCommon) (FuncVal, []Value) {
	args := make([]Value, 0, len(cc.Args)+1)
	if cc.IsInvoke() {
		recv, ok := e.get(st, f, cc.Value).(IfaceVal)
		if !ok {
			panic(engineErr{fmt.Sprintf("invoke on %T", e.get(st, f, cc.Value))})
		}
		if recv.typ == nil {
			e.goPanic(st, "runtime error: invalid memory address or nil pointer dereference (nil interface method call "+cc.Method.Name()+")")
			return FuncVal{}, nil
		}
		fn := e.lookupMethod(recv.typ, cc.Method)
		if fn == nil {
			panic(engineErr{"method not found: " + recv.typ.String() + "." + cc.Method.Name()})
		}
		args = append(args, recv.v)
		for _, a := range cc.Args {
			args = append(args, e.get(st, f, a))
		}
		return FuncVal{fn: fn}, args
	}
	fvv := e.get(st, f, cc.Value)
	fv, ok := fvv.(FuncVal)
	if !ok {
		panic(engineErr{fmt.Sprintf("call of %T", fvv)})
	}
	for _, a := range cc.Args {
		args = append(args, e.get(st, f, a))
	}
	return fv, args
}

func (e *Engine) lookupMethod(t types.Type, m *types.Func) *ssa.Function {
	ms := e.prog.MethodSets.MethodSet(t)
	sel := ms.Lookup(m.Pkg(), m.Name())
	if sel == nil {
		return nil
	}
	return e.prog.MethodValue(sel)
}

func (e *Engine) execCall(st *State, f *Frame, cc *ssa.CallCommon, ret retKind, site ssa.Instruction) {
	fv, args := e.resolveCall(st, f, cc)
	e.callValue(st, fv, args, ret, site)
}

// ---------- builtins ----------

func (e *Engine) callBuiltin(st *State, b *ssa.Builtin, args []Value, site ssa.Instruction) Value {
	c := e.ctx
	switch b.Name() {
	case "len":
		switch x := args[0].(type) {
		case StrVal:
			return c.BV(64, uint64(x.len))
		case SliceVal:
			return c.BV(64, uint64(x.len))
		case MapVal:
			if x.obj == 0 {
				return c.BV(64, 0)
			}
			return c.BV(64, uint64(len(e.obj(st, x.obj).entries)))
		case ChanVal:
			if x.obj == 0 {
				return c.BV(64, 0)
			}
			return c.BV(64, uint64(len(e.obj(st, x.obj).buf)))
		case PtrVal:
			at := b.Type().(*types.Signature).Params().At(0).Type().Underlying().(*types.Pointer).Elem().Underlying().(*types.Array)
			return c.BV(64, uint64(at.Len()))
		case AggVal:
			at := b.Type().(*types.Signature).Params().At(0).Type().Underlying().(*types.Array)
			return c.BV(64, uint64(at.Len()))
		}
	case "cap":
		switch x := args[0].(type) {
		case SliceVal:
			return c.BV(64, uint64(x.cap))
		case ChanVal:
			if x.obj == 0 {
				return c.BV(64, 0)
			}
			return c.BV(64, uint64(e.obj(st, x.obj).bufcap))
		}
	case "append":
		return e.doAppend(st, b, args)
	case "copy":
		dst := args[0].(SliceVal)
		var src []Value
		switch s := args[1].(type) {
		case SliceVal:
			src = e.sliceSlots(st, s)
		case StrVal:
			src = e.strBytes(st, s)
		}
		n := dst.len * dst.esz
		if len(src) < n {
			n = len(src)
		}
		if n > 0 {
			tmp := append([]Value(nil), src[:n]...)
			wo := e.wobj(st, dst.obj)
			copy(wo.slots[dst.off:dst.off+n], tmp)
		}
		esz := dst.esz
		if esz == 0 {
			esz = 1
		}
		return c.BV(64, uint64(n/esz))
	case "delete":
		e.mapDelete(st, args[0].(MapVal), args[1])
		return nil
	case "print", "println":
		return nil
	case "close":
		ch := args[0].(ChanVal)
		if ch.obj == 0 {
			e.goPanic(st, "close of nil channel")
			return nil
		}
		o := e.wobj(st, ch.obj)
		if o.closed {
			e.goPanic(st, "close of closed channel")
			return nil
		}
		o.closed = true
		return nil
	case "recover":
		// caller is the frame executing recover(): must be a deferred function called by a panicking frame
		if len(st.frames) >= 2 {
			cur := st.top()
			parent := st.frames[len(st.frames)-2]
			if cur.ret == retDefer && parent.status == stPanicking {
				parent.status = stComplete
				pv := parent.panicVal
				parent.panicVal = nil
				return pv
			}
		}
		return IfaceVal{}
	case "ssa:wrapnilchk":
		if p, ok := args[0].(PtrVal); ok && p.obj == 0 {
			e.goPanic(st, "value method called using nil pointer")
			return nil
		}
		return args[0]
	case "min", "max":
		r := args[0]
		for _, a := range args[1:] {
			switch x := r.(type) {
			case *Term:
				y := a.(*Term)
				_, signed, _ := intType(b.Type().(*types.Signature).Params().At(0).Type())
				var lt *Term
				if signed {
					lt = c.Cmp(OpSlt, y, x)
				} else {
					lt = c.Cmp(OpUlt, y, x)
				}
				if b.Name() == "max" {
					lt = c.Not(c.Or(lt, c.Eq(x, y)))
				}
				r = c.Ite(lt, y, x)
			case FloatVal:
				y := a.(FloatVal)
				if (b.Name() == "min" && y.f < x.f) || (b.Name() == "max" && y.f > x.f) {
					r = y
				}
			default:
				e.unsupported(st, "min/max on unsupported type")
			}
		}
		return r
	case "String": // unsafe.String(ptr, len)
		p := args[0].(PtrVal)
		n := e.concreteInt(st, args[1], "unsafe.String len")
		if n == 0 {
			return StrVal{}
		}
		return StrVal{obj: p.obj, off: p.off, len: n}
	case "StringData":
		s := args[0].(StrVal)
		if s.len == 0 {
			return PtrVal{}
		}
		return PtrVal{obj: s.obj, off: s.off}
	case "SliceData":
		s := args[0].(SliceVal)
		if s.obj == 0 {
			return PtrVal{}
		}
		return PtrVal{obj: s.obj, off: s.off}
	case "Slice": // unsafe.Slice(ptr, len)
		p := args[0].(PtrVal)
		n := e.concreteInt(st, args[1], "unsafe.Slice len")
		if p.obj == 0 {
			return SliceVal{esz: 1}
		}
		et := b.Type().(*types.Signature).Results().At(0).Type().Underlying().(*types.Slice).Elem()
		return SliceVal{obj: p.obj, off: p.off, len: n, cap: n, esz: e.slotsOf(et)}
	case "clear":
		switch x := args[0].(type) {
		case MapVal:
			if x.obj != 0 {
				e.wobj(st, x.obj).entries = nil
			}
			return nil
		case SliceVal:
			if x.len > 0 {
				et := b.Type().(*types.Signature).Params().At(0).Type().Underlying().(*types.Slice).Elem()
				one := e.zeroSlots(nil, et)
				wo := e.wobj(st, x.obj)
				for i := 0; i < x.len; i++ {
					copy(wo.slots[x.off+i*x.esz:], one)
				}
			}
			return nil
		}
	}
	e.unsupported(st, "builtin "+b.Name())
	return nil
}

var sizeClasses = []int{0, 8, 16, 24, 32, 48, 64, 80, 96, 112, 128, 144, 160, 176, 192, 208, 224, 240, 256, 288, 320, 352, 384, 416, 448, 480, 512, 576, 640, 704, 768, 896, 1024, 1152, 1280, 1408, 1536, 1792, 2048, 2304, 2688, 3072, 3200, 3456, 4096, 4864, 5120, 5376, 6144, 6528, 6784, 6912, 8192, 9472, 9728, 10240, 10880, 12288, 13568, 14336, 16384, 18432, 19072, 20480, 21760, 24576, 27264, 28672, 32768}

func roundupsize(n int) int {
	if n <= 32768 {
		for _, s := range sizeClasses {
			if s >= n {
				return s
			}
		}
	}
	// page rounding
	return (n + 8191) &^ 8191
}

// growCap mirrors runtime.growslice (go1.20+).
func growCap(oldCap, newLen int, elemBytes int) int {
	newcap := oldCap
	doublecap := newcap + newcap
	if newLen > doublecap {
		newcap = newLen
	} else {
		const threshold = 256
		if oldCap < threshold {
			newcap = doublecap
		} else {
			for newcap < newLen {
				newcap += (newcap + 3*threshold) >> 2
			}
		}
	}
	if elemBytes <= 0 {
		return newcap
	}
	mem := roundupsize(newcap * elemBytes)
	return mem / elemBytes
}

func (e *Engine) doAppend(st *State, b *ssa.Builtin, args []Value) Value {
	s := args[0].(SliceVal)
	st0 := b.Type().(*types.Signature).Params().At(0).Type()
	et := st0.Underlying().(*types.Slice).Elem()
	esz := e.slotsOf(et)
	s.esz = esz
	var add []Value
	switch a := args[1].(type) {
	case SliceVal:
		add = e.sliceSlots(st, a)
	case StrVal:
		add = e.strBytes(st, a)
	}
	nadd := len(add)
	if esz > 0 {
		nadd = len(add) / esz
	}
	if nadd == 0 {
		return s
	}
	if s.len+nadd <= s.cap && s.obj != 0 {
		tmp := append([]Value(nil), add...)
		wo := e.wobj(st, s.obj)
		copy(wo.slots[s.off+s.len*esz:], tmp)
		s.len += nadd
		return s
	}
	newLen := s.len + nadd
	eb := int(e.sizes.Sizeof(et))
	ncap := growCap(s.cap, newLen, eb)
	slots := make([]Value, ncap*esz)
	copy(slots, e.sliceSlots(st, s))
	copy(slots[s.len*esz:], add)
	// zero the rest
	if ncap > newLen {
		one := e.zeroSlots(nil, et)
		for i := newLen; i < ncap; i++ {
			copy(slots[i*esz:], one)
		}
	}
	id := e.allocMem(st, slots, "append")
	return SliceVal{obj: id, off: 0, len: newLen, cap: ncap, esz: esz}
}

// ---------- reporting ----------

func (e *Engine) reportPanic(st *State, pv Value) {
	msg := e.describePanic(st, pv)
	site := ""
	for i := len(st.notes) - 1; i >= 0; i-- {
		if len(st.notes[i]) > 7 && st.notes[i][:7] == "panic: " {
			site = st.notes[i]
			break
		}
	}
	e.recordViolation(st, "panic", msg, site, nil)
}

// runLazyGo starts the oldest goroutine parked by the "lazy" go policy; the instruction at
// which the current frame is blocked is re-executed when it returns.
func (e *Engine) runLazyGo(st *State, at ssa.Instruction) bool {
	if len(st.goDeferred) == 0 {
		return false
	}
	d := st.goDeferred[0]
	st.goDeferred = append([]deferRec(nil), st.goDeferred[1:]...)
	st.lazyBase = append(append([]int(nil), st.lazyBase...), len(st.frames))
	e.callValue(st, d.fn, d.args, retRerun, at)
	return true
}
