package main

import (
	"fmt"
	"go/constant"
	"go/token"
	"go/types"
	"math"
	"os"
	"runtime"
	"sort"
	"strings"
	"sync"
	"time"

	"golang.org/x/tools/go/ssa"
)

type fnInfo struct {
	idx   map[ssa.Value]int
	nregs int
	instrs int
	count int64
}

type Alt struct {
	cond *Term
	then func(st *State)
}

type Violation struct {
	Harness string
	Kind    string // "assert", "panic"
	Name    string // assertion name or panic message
	Site    string // function where it happened
	Known   string // matched known-finding id (or "")
	Model   map[string]uint64
	Inputs  []inputRec
	Replay  string
	Confirmed bool
	Detail  string
}

type Config struct {
	MaxSteps    int            // per path
	Unwind      int            // max visits of one block per frame
	MaxPaths    int
	GoPolicy    map[string]string // function name -> "skip" | "inline" | "defer"
	SolverTimeoutMs int
	MaxDepth    int
}

type Stats struct {
	Paths        int
	Forks        int
	Instrs       int64
	Unsupported  map[string]int
	UnwindFail   map[string]int
	Funcs        map[string]int // function -> instructions executed
	Covers       map[string]int
	AssertsChecked int
	AssertQueries int
	PanicChecks   int
	Samples      []map[string]interface{}
	SolverUnknown int
	Infeasible   int
	Stubs        map[string]int
}

type Engine struct {
	rescued int // primary-solver unknowns decided by the second solver
	prog      *ssa.Program
	ctx       *Ctx
	solver    *Solver
	solver2   *Solver
	crossChecked int
	layout    map[types.Type]int
	constObjs []*Object
	strIntern map[string]int
	epochSeq  int
	globals   map[*ssa.Global]int
	fninfo    map[*ssa.Function]*fnInfo
	cfg       Config
	stats     Stats
	work      []*State
	violations []*Violation
	harness   string
	models    map[string]modelFn
	sizes     types.Sizes
	initDone  map[*ssa.Package]bool
	forced    []int // decision prefix to follow (partitioning)
	splitMode bool
	splitOut  [][]int
	splitDepth int
	curSt     *State
	trace     bool
	known     map[string]KnownFinding
	pathModels []pathSample
	wantSamples int
	sampleSeen  int
	rng2        uint64
	typeIDs  map[string]int
	pure     bool
	concrete []ReplayInput
	rng      uint64
	fastFeas, fastInfeas, fastChecked int
	initMode bool
	initPoisoned map[string]int
	params   map[string]int
	clock    int64
}

type pathSample struct {
	hasModel bool
	inputs   []inputRec
	observes []observeRec
	model    map[string]uint64
	covers   []string
}

func NewEngine(prog *ssa.Program, cfg Config) *Engine {
	e := &Engine{prog: prog, ctx: NewCtx(), layout: map[types.Type]int{}, strIntern: map[string]int{},
		globals: map[*ssa.Global]int{}, fninfo: map[*ssa.Function]*fnInfo{}, cfg: cfg,
		initDone: map[*ssa.Package]bool{}, initPoisoned: map[string]int{}}
	e.constObjs = []*Object{nil}
	e.stats.Unsupported = map[string]int{}
	e.stats.UnwindFail = map[string]int{}
	e.stats.Funcs = map[string]int{}
	e.stats.Covers = map[string]int{}
	e.stats.Stubs = map[string]int{}
	e.sizes = types.SizesFor("gc", "amd64")
	e.models = builtinModels()
	return e
}

func (e *Engine) info(fn *ssa.Function) *fnInfo {
	if fi, ok := e.fninfo[fn]; ok {
		return fi
	}
	fi := &fnInfo{idx: map[ssa.Value]int{}}
	n := 0
	for _, p := range fn.Params {
		fi.idx[p] = n
		n++
	}
	for _, fv := range fn.FreeVars {
		fi.idx[fv] = n
		n++
	}
	for _, b := range fn.Blocks {
		for _, ins := range b.Instrs {
			fi.instrs++
			if v, ok := ins.(ssa.Value); ok {
				fi.idx[v] = n
				n++
			}
		}
	}
	fi.nregs = n
	e.fninfo[fn] = fi
	return fi
}

// ---------- path termination ----------

type pathEnd struct{ why string }

func (e *Engine) unsupported(st *State, why string) {
	if e.initMode {
		panic(pathEnd{"unsupported: " + why})
	}
	e.stats.Unsupported[why]++
	if e.trace {
		fmt.Fprintf(os.Stderr, "UNSUPPORTED: %s\n%s", why, e.stackString(st))
	}
	st.done = true
	panic(pathEnd{"unsupported: " + why})
}

func (e *Engine) stackString(st *State) string {
	var sb strings.Builder
	for i := len(st.frames) - 1; i >= 0 && i > len(st.frames)-12; i-- {
		f := st.frames[i]
		pos := ""
		if f.block != nil && f.pc < len(f.block.Instrs) {
			pos = e.prog.Fset.Position(f.block.Instrs[f.pc].Pos()).String()
		}
		fmt.Fprintf(&sb, "    at %s (%s)\n", f.fn.String(), pos)
	}
	return sb.String()
}

// ---------- value access ----------

func (e *Engine) get(st *State, f *Frame, v ssa.Value) Value {
	switch v := v.(type) {
	case *ssa.Const:
		return e.constValue(v)
	case *ssa.Global:
		return PtrVal{obj: e.globalObj(st, v)}
	case *ssa.Function:
		return FuncVal{fn: v}
	case *ssa.Builtin:
		return FuncVal{builtin: v}
	}
	i, ok := f.info.idx[v]
	if !ok {
		panic(engineErr{fmt.Sprintf("no register for %s in %s", v.Name(), f.fn)})
	}
	r := f.regs[i]
	if r == nil {
		panic(engineErr{fmt.Sprintf("unset register %s in %s", v.Name(), f.fn)})
	}
	return r
}

func (e *Engine) set(f *Frame, v ssa.Value, val Value) {
	f.regs[f.info.idx[v]] = val
}

func (e *Engine) constValue(c *ssa.Const) Value {
	t := c.Type()
	if c.Value == nil {
		return e.zeroValue(t)
	}
	if tp, ok := t.(*types.TypeParam); ok {
		_ = tp
		panic(engineErr{"const of type param"})
	}
	switch u := t.Underlying().(type) {
	case *types.Basic:
		if w, _, ok := basicWidth(u); ok {
			if w == 0 {
				return e.ctx.Bool(constant.BoolVal(c.Value))
			}
			cv := constant.ToInt(c.Value)
			if i64, exact := constant.Int64Val(cv); exact {
				return e.ctx.BV(w, uint64(i64))
			}
			u64, _ := constant.Uint64Val(cv)
			return e.ctx.BV(w, u64)
		}
		if w, ok := isFloat(t); ok {
			f, _ := constant.Float64Val(c.Value)
			return FloatVal{f, w}
		}
		if u.Info()&types.IsString != 0 {
			return e.constString(constant.StringVal(c.Value))
		}
		if u.Info()&types.IsComplex != 0 {
			re, _ := constant.Float64Val(constant.Real(c.Value))
			im, _ := constant.Float64Val(constant.Imag(c.Value))
			return ComplexVal{complex(re, im)}
		}
	}
	panic(engineErr{fmt.Sprintf("constValue: unhandled %s : %s", c, t)})
}

// ---------- loads / stores ----------

func (e *Engine) load(st *State, p PtrVal, t types.Type) Value {
	if p.obj == 0 {
		e.goPanic(st, "runtime error: invalid memory address or nil pointer dereference")
		return nil
	}
	o := e.obj(st, p.obj)
	n := e.slotsOf(t)
	if p.off < 0 || p.off+n > len(o.slots) {
		panic(engineErr{fmt.Sprintf("load out of object: off=%d n=%d len=%d type=%s label=%s", p.off, n, len(o.slots), t, o.label)})
	}
	if n == 1 && !isAgg(t) {
		v := o.slots[p.off]
		if v == nil {
			panic(engineErr{"load of nil slot"})
		}
		return v
	}
	return e.unflatten(o.slots[p.off:p.off+n], t)
}

func (e *Engine) store(st *State, p PtrVal, v Value) {
	if p.obj == 0 {
		e.goPanic(st, "runtime error: invalid memory address or nil pointer dereference")
		return
	}
	o := e.wobj(st, p.obj)
	if a, ok := v.(AggVal); ok {
		if p.off+len(a.slots) > len(o.slots) {
			panic(engineErr{"store out of object"})
		}
		copy(o.slots[p.off:], a.slots)
		return
	}
	if p.off >= len(o.slots) {
		panic(engineErr{fmt.Sprintf("store out of object off=%d len=%d", p.off, len(o.slots))})
	}
	o.slots[p.off] = v
}

// ---------- Go panics ----------

type goPanicSignal struct{}

// goPanic starts unwinding with a runtime-error-like panic value.
func (e *Engine) goPanic(st *State, msg string) {
	if e.initMode {
		panic(engineErr{"go panic during package init: " + msg})
	}
	e.startPanic(st, IfaceVal{typ: types.Typ[types.String], v: e.constString(msg)}, msg)
	panic(goPanicSignal{})
}

func (e *Engine) startPanic(st *State, val Value, msg string) {
	f := st.top()
	f.status = stPanicking
	f.panicVal = val
	if e.trace {
		fmt.Fprintf(os.Stderr, "PANIC %s\n%s", msg, e.stackString(st))
	}
	st.notes = append(st.notes, "panic: "+msg+" in "+f.fn.String())
	e.unwind(st)
}

// unwind continues panic processing for the top frame: run its defers, then pop.
func (e *Engine) unwind(st *State) {
	for {
		f := st.top()
		if len(f.defers) > 0 {
			d := f.defers[len(f.defers)-1]
			f.defers = f.defers[:len(f.defers)-1]
			e.callValue(st, d.fn, d.args, retDefer, nil)
			return
		}
		// no more defers in this frame
		if f.status == stComplete {
			// recovered: function returns normally (via Recover block if any)
			if f.fn.Recover != nil {
				f.status = stRunning
				f.prev = f.block
				f.block = f.fn.Recover
				f.pc = 0
				return
			}
			res := e.zeroResults(f.fn)
			f.status = stRunning
			e.popFrame(st, res)
			return
		}
		if f.status != stPanicking {
			panic(engineErr{"unwind of non-panicking frame"})
		}
		pv := f.panicVal
		if f.ret == retTop || len(st.frames) == 1 {
			// escaped the harness
			e.reportPanic(st, pv)
			st.done = true
			return
		}
		st.frames = st.frames[:len(st.frames)-1]
		c := st.top()
		if f.ret == retDefer {
			// a deferred call panicked: replaces the caller's panic
			c.status = stPanicking
			c.panicVal = pv
			continue
		}
		c.status = stPanicking
		c.panicVal = pv
	}
}

func (e *Engine) zeroResults(fn *ssa.Function) Value {
	res := fn.Signature.Results()
	switch res.Len() {
	case 0:
		return nil
	case 1:
		return e.zeroValue(res.At(0).Type())
	}
	t := make(TupleVal, res.Len())
	for i := range t {
		t[i] = e.zeroValue(res.At(i).Type())
	}
	return t
}

// ---------- calls ----------

func (e *Engine) pushFrame(st *State, fn *ssa.Function, args []Value, caps []Value, ret retKind) {
	if fn.Blocks == nil {
		panic(engineErr{"pushFrame of body-less function " + fn.String()})
	}
	if len(st.frames) > 400 {
		e.unsupported(st, "recursion depth > 400 in "+fn.String())
	}
	fi := e.info(fn)
	f := &Frame{fn: fn, info: fi, regs: make([]Value, fi.nregs), block: fn.Blocks[0], ret: ret}
	if len(args) != len(fn.Params) {
		panic(engineErr{fmt.Sprintf("arg count mismatch calling %s: %d vs %d", fn, len(args), len(fn.Params))})
	}
	copy(f.regs, args)
	copy(f.regs[len(args):], caps)
	st.frames = append(st.frames, f)
}

// popFrame returns from the top frame with result res.
func (e *Engine) popFrame(st *State, res Value) {
	f := st.top()
	st.frames = st.frames[:len(st.frames)-1]
	e.deliver(st, f.ret, res)
}

func (e *Engine) deliver(st *State, kind retKind, res Value) {
	switch kind {
	case retTop:
		st.done = true
		st.completed = true
	case retToReg:
		c := st.top()
		ins := c.block.Instrs[c.pc]
		if v, ok := ins.(ssa.Value); ok {
			if res == nil {
				res = TupleVal(nil)
			}
			e.set(c, v, res)
		}
		c.pc++
	case retDiscard:
		st.top().pc++
	case retRerun:
		// a lazily scheduled goroutine finished: the blocked instruction is executed again
		if n := len(st.lazyBase); n > 0 && st.lazyBase[n-1] == len(st.frames) {
			st.lazyBase = st.lazyBase[:n-1]
		}
	case retDefer:
		c := st.top()
		if c.status == stPanicking || c.status == stComplete {
			e.unwind(st)
			return
		}
		// normal RunDefers
		e.runDefers(st)
	}
}

func (e *Engine) runDefers(st *State) {
	f := st.top()
	if len(f.defers) > 0 {
		d := f.defers[len(f.defers)-1]
		f.defers = f.defers[:len(f.defers)-1]
		f.inRunDefers = true
		e.callValue(st, d.fn, d.args, retDefer, nil)
		return
	}
	f.inRunDefers = false
	f.pc++
}

// callValue calls a function value with args.
func (e *Engine) callValue(st *State, fv FuncVal, args []Value, ret retKind, site ssa.Instruction) {
	if fv.nilFn {
		e.goPanic(st, "runtime error: invalid memory address or nil pointer dereference (nil func)")
		return
	}
	if fv.builtin != nil {
		res := e.callBuiltin(st, fv.builtin, args, site)
		e.deliver(st, ret, res)
		return
	}
	fn := fv.fn
	if fv.bound {
		args = append([]Value{fv.recv}, args...)
	}
	e.callFunction(st, fn, args, fv.caps, ret)
}

func (e *Engine) callFunction(st *State, fn *ssa.Function, args []Value, caps []Value, ret retKind) {
	name := fn.String()
	if fn.Origin() != nil {
		name = fn.Origin().String()
	}
	// the hz module's copy of the intrinsics package is the same package under another path
	if strings.Contains(name, hzModule+"/internal/zzverif") {
		name = strings.Replace(name, hzModule+"/internal/zzverif", "internal/zzverif", 1)
	}
	if fn.Synthetic == "package initializer" && fn.Pkg != nil {
		if os.Getenv("SYMGO_TRACE_INIT") != "" {
			fmt.Fprintf(os.Stderr, "init call %s allow=%v\n", fn.Pkg.Pkg.Path(), allowInit(fn.Pkg.Pkg.Path()))
		}
		if !allowInit(fn.Pkg.Pkg.Path()) {
			e.deliver(st, ret, nil)
			return
		}
	}
	if m, ok := e.findModel(name); ok {
		e.stats.Stubs[name]++
		m(e, st, &callCtx{fn: fn, args: args, ret: ret})
		return
	}
	if fn.Blocks == nil {
		e.unsupported(st, "no body/model for "+name)
		return
	}
	e.pushFrame(st, fn, args, caps, ret)
}

type callCtx struct {
	fn   *ssa.Function
	args []Value
	ret  retKind
}

// finish delivers a model's result.
func (e *Engine) finish(st *State, c *callCtx, res Value) {
	e.deliver(st, c.ret, res)
}

// ---------- fork ----------

// fork explores the feasible alternatives. The current state is consumed.
func (e *Engine) fork(st *State, alts []Alt) {
	// constant conditions
	var live []Alt
	for _, a := range alts {
		if a.cond.IsFalse() {
			continue
		}
		if a.cond.IsTrue() {
			live = []Alt{a}
			break
		}
		live = append(live, a)
	}
	if len(live) == 0 {
		panic(engineErr{"fork with no alternatives"})
	}
	if len(live) == 1 && live[0].cond.IsTrue() {
		e.runAlt(st, live[0])
		return
	}
	didx := len(st.decisions)
	// forced prefix (partition replay): follow without querying
	if didx < len(e.forced) {
		k := e.forced[didx]
		if k >= len(live) {
			panic(engineErr{"forced decision out of range"})
		}
		st.decisions = append(st.decisions, k)
		e.addPC(st, live[k].cond)
		st.model = nil
		e.runAlt(st, live[k])
		return
	}
	e.stats.Forks++
	if forkSites != nil {
		f := st.top()
		pos := ""
		for k := f.pc; k >= 0 && k < len(f.block.Instrs); k-- {
			if p := f.block.Instrs[k].Pos(); p.IsValid() {
				pos = e.prog.Fset.Position(p).String()
				break
			}
			if iff, ok := f.block.Instrs[k].(*ssa.If); ok && iff.Cond.Pos().IsValid() {
				pos = e.prog.Fset.Position(iff.Cond.Pos()).String()
				break
			}
		}
		forkMu.Lock()
		forkSites[f.fn.String()+" "+pos]++
		forkMu.Unlock()
	}
	e.solver.SyncTo(st.pcList())
	var feas []int
	var models []map[string]uint64
	memo := map[*Term]uint64{}
	usedModel := false
	for i, a := range live {
		// model shortcut: if the state's model satisfies cond, it's feasible
		if st.model != nil && !usedModel {
			if e.ctx.Eval(a.cond, st.model, memo) == 1 {
				feas = append(feas, i)
				models = append(models, st.model)
				usedModel = true
				continue
			}
		}
		// byte-domain fast path (sound pruning; feasibility only for independent variables),
		// compositional over and/or/not of single-byte-variable atoms
		if !e.pure {
			verdict, assigns := e.quickSat(st, a.cond, 0)
			if verdict == Sat && st.model == nil {
				verdict = Unknown // no base model to extend: ask the solver
			}
			if verdict != Unknown {
				// seeded cross-check against the solver
				e.rng = e.rng*6364136223846793005 + 1442695040888963407
				if (e.rng>>33)%64 == 0 {
					e.fastChecked++
					if r := e.solver.Check(a.cond); r != verdict && r != Unknown {
						e.stats.Unsupported["fast-path/solver disagreement"]++
						if os.Getenv("SYMGO_DEBUG") != "" {
							fmt.Fprintf(os.Stderr, "DISAGREE fast=%v solver=%v cond=%s\n", verdict, r, a.cond)
							for _, t := range st.pcList() {
								fmt.Fprintf(os.Stderr, "    pc %s\n", t)
							}
						}
					}
				}
				if verdict == Unsat {
					e.fastInfeas++
					e.stats.Infeasible++
				} else {
					e.fastFeas++
					fm := make(map[string]uint64, len(st.model)+len(assigns))
					for k, v := range st.model {
						fm[k] = v
					}
					for k, v := range assigns {
						fm[k.name] = v
					}
					feas = append(feas, i)
					models = append(models, fm)
				}
				continue
			}
		}
		if queryProfile != nil {
			vs := e.ctx.termVars(a.cond)
			key := fmt.Sprintf("vars=%d", len(vs))
			if len(vs) == 1 {
				d := st.domOf(vs[0])
				key += fmt.Sprintf(" w=%d mixed=%v", vs[0].w, d.mixed)
			}
			f := st.top()
			forkMu.Lock()
			queryProfile[key+" @"+f.fn.Name()]++
			forkMu.Unlock()
		}
		r, m := e.solver.CheckModel(a.cond, e.inputVars(st, a.cond))
		if r == Unknown && e.solver2 != nil {
			// the primary solver gave up (time-out under load): ask the second solver before
			// declaring the branch undecided
			e.solver2.SyncTo(st.pcList())
			r, m = e.solver2.CheckModel(a.cond, e.inputVars(st, a.cond))
			if r != Unknown {
				e.rescued++
			}
		}
		switch r {
		case Sat:
			feas = append(feas, i)
			models = append(models, m)
		case Unknown:
			e.stats.SolverUnknown++
			e.stats.Unsupported["solver unknown at branch"]++
		default:
			e.stats.Infeasible++
		}
	}
	if len(feas) == 0 {
		// path condition itself infeasible or all unknown
		st.done = true
		return
	}
	base := append([]int(nil), st.decisions...)
	var states []*State
	for j := range feas {
		var s *State
		if j == len(feas)-1 {
			s = st
		} else {
			s = e.cloneState(st)
		}
		states = append(states, s)
	}
	// run alternatives; push in reverse so first alt is explored first
	for j := len(feas) - 1; j >= 0; j-- {
		s := states[j]
		a := live[feas[j]]
		s.decisions = append(append([]int(nil), base...), feas[j])
		e.addPC(s, a.cond)
		s.model = models[j]
		func() {
			defer e.recoverPath(s)
			a.then(s)
		}()
		if !s.done {
			e.work = append(e.work, s)
		} else {
			e.endPath(s)
		}
	}
	panic(forkedSignal{})
}

type forkedSignal struct{}

// quickSat decides pc ∧ t from the byte domains alone when it can.
//   atom over one 8-bit variable x: S = {v in dom(x) | t(v)}; S empty => Unsat (dom is an
//     over-approximation); S non-empty and x occurs in no non-unary constraint => Sat
//   and(a,b): any Unsat => Unsat; both Sat over disjoint variable sets => Sat
//   or(a,b):  any Sat => Sat; both Unsat => Unsat
//   not:      pushed inwards (De Morgan)
// anything else: Unknown (ask the solver).
func (e *Engine) quickSat(st *State, t *Term, depth int) (Result, map[*Term]uint64) {
	if t.IsTrue() {
		return Sat, nil
	}
	if t.IsFalse() {
		return Unsat, nil
	}
	if xv := e.ctx.unaryByteVar(t); xv != nil {
		d := st.domOf(xv)
		sd := e.ctx.satisfying(t, xv, d)
		if sd.empty() {
			return Unsat, nil
		}
		if d.mixed {
			return Unknown, nil
		}
		for v := 0; v < 256; v++ {
			if sd.has(v) {
				return Sat, map[*Term]uint64{xv: uint64(v)}
			}
		}
	}
	if depth > 24 {
		return Unknown, nil
	}
	switch t.op {
	case OpAnd:
		ra, ma := e.quickSat(st, t.args[0], depth+1)
		if ra == Unsat {
			return Unsat, nil
		}
		rb, mb := e.quickSat(st, t.args[1], depth+1)
		if rb == Unsat {
			return Unsat, nil
		}
		if ra == Sat && rb == Sat {
			va, vb := e.ctx.termVars(t.args[0]), e.ctx.termVars(t.args[1])
			for _, x := range va {
				for _, y := range vb {
					if x == y {
						return Unknown, nil
					}
				}
			}
			out := make(map[*Term]uint64, len(ma)+len(mb))
			for k, v := range ma {
				out[k] = v
			}
			for k, v := range mb {
				out[k] = v
			}
			return Sat, out
		}
		return Unknown, nil
	case OpOr:
		ra, ma := e.quickSat(st, t.args[0], depth+1)
		if ra == Sat {
			return Sat, ma
		}
		rb, mb := e.quickSat(st, t.args[1], depth+1)
		if rb == Sat {
			return Sat, mb
		}
		if ra == Unsat && rb == Unsat {
			return Unsat, nil
		}
		return Unknown, nil
	case OpNot:
		in := t.args[0]
		switch in.op {
		case OpAnd:
			return e.quickSat(st, e.ctx.Or(e.ctx.Not(in.args[0]), e.ctx.Not(in.args[1])), depth+1)
		case OpOr:
			return e.quickSat(st, e.ctx.And(e.ctx.Not(in.args[0]), e.ctx.Not(in.args[1])), depth+1)
		}
	}
	return Unknown, nil
}

// forkFresh forks on the value of a fresh (unconstrained) variable: every alternative is
// feasible by construction, so no solver query is needed; models are extended accordingly.
func (e *Engine) forkFresh(st *State, v *Term, vals []uint64, alts []Alt) {
	didx := len(st.decisions)
	if didx < len(e.forced) {
		k := e.forced[didx]
		st.decisions = append(st.decisions, k)
		e.addPC(st, alts[k].cond)
		st.model = nil
		alts[k].then(st)
		return
	}
	e.stats.Forks++
	base := append([]int(nil), st.decisions...)
	states := make([]*State, len(alts))
	for j := range alts {
		if j == len(alts)-1 {
			states[j] = st
		} else {
			states[j] = e.cloneState(st)
		}
	}
	for j := len(alts) - 1; j >= 0; j-- {
		s := states[j]
		s.decisions = append(append([]int(nil), base...), j)
		e.addPC(s, alts[j].cond)
		if s.model != nil {
			nm := make(map[string]uint64, len(s.model)+1)
			for k, x := range s.model {
				nm[k] = x
			}
			nm[v.name] = vals[j]
			s.model = nm
		}
		func() {
			defer e.recoverPath(s)
			alts[j].then(s)
		}()
		if !s.done {
			e.work = append(e.work, s)
		} else {
			e.endPath(s)
		}
	}
	panic(forkedSignal{})
}

var deadline time.Time

var queryProfile map[string]int

var forkSites map[string]int
var forkMu sync.Mutex

func init() {
	if os.Getenv("SYMGO_FORKSITES") != "" {
		forkSites = map[string]int{}
	}
	if os.Getenv("SYMGO_QUERYPROFILE") != "" {
		queryProfile = map[string]int{}
	}
}

func dumpForkSites() {
	if queryProfile != nil {
		type kv struct {
			k string
			v int
		}
		var l []kv
		for k, v := range queryProfile {
			l = append(l, kv{k, v})
		}
		sort.Slice(l, func(i, j int) bool { return l[i].v > l[j].v })
		for i, x := range l {
			if i >= 25 {
				break
			}
			fmt.Fprintf(os.Stderr, "query %8d %s\n", x.v, x.k)
		}
	}
	if forkSites == nil {
		return
	}
	type kv struct {
		k string
		v int
	}
	var l []kv
	for k, v := range forkSites {
		l = append(l, kv{k, v})
	}
	sort.Slice(l, func(i, j int) bool { return l[i].v > l[j].v })
	for i, x := range l {
		if i >= 25 {
			break
		}
		fmt.Fprintf(os.Stderr, "forksite %8d %s\n", x.v, x.k)
	}
}

func (e *Engine) runAlt(st *State, a Alt) {
	a.then(st)
}

// inputVars: variables whose values we want in models (all input variables of the state).
func (e *Engine) inputVars(st *State, extra *Term) []*Term {
	set := map[*Term]bool{}
	seen := map[*Term]bool{}
	for p := st.pc; p != nil; p = p.prev {
		p.t.Vars(set, seen)
	}
	if extra != nil {
		extra.Vars(set, seen)
	}
	out := make([]*Term, 0, len(set))
	for v := range set {
		out = append(out, v)
	}
	sort.Slice(out, func(i, j int) bool { return out[i].id < out[j].id })
	return out
}

func (e *Engine) recoverPath(st *State) {
	if r := recover(); r != nil {
		switch x := r.(type) {
		case pathEnd:
			st.done = true
		case goPanicSignal:
			// state already switched to unwinding
		case forkedSignal:
			panic(engineErr{"nested fork inside alternative"})
		case engineErr:
			e.stats.Unsupported["engine: "+x.msg]++
			if e.trace {
				fmt.Fprintf(os.Stderr, "ENGINE ERROR: %s\n%s", x.msg, e.stackString(st))
			}
			st.done = true
		case runtime.Error:
			e.stats.Unsupported["internal: "+x.Error()]++
			st.done = true
		default:
			panic(r)
		}
	}
}

// ---------- main loop ----------

func (e *Engine) endPath(st *State) {
	e.stats.Paths++
	if os.Getenv("SYMGO_DUMP_PATHS") != "" {
		fmt.Fprintf(os.Stderr, "PATH %v\n", st.decisions)
		for _, t := range st.pcList() {
			fmt.Fprintf(os.Stderr, "    %s\n", t)
		}
	}
	for k := range st.covers {
		e.stats.Covers[k]++
	}
	if e.wantSamples > 0 && !st.violated && st.completed {
		// reservoir sample of completed paths (seeded): used for evidence samples and for the
		// native validation of passing paths
		e.sampleSeen++
		slot := -1
		if len(e.pathModels) < e.wantSamples {
			e.pathModels = append(e.pathModels, pathSample{})
			slot = len(e.pathModels) - 1
		} else {
			e.rng2 = e.rng2*6364136223846793005 + 1442695040888963407
			if j := int((e.rng2 >> 33) % uint64(e.sampleSeen)); j < e.wantSamples {
				slot = j
			}
		}
		if slot >= 0 {
			mdl := st.model
			if mdl == nil && st.pc != nil && e.concrete == nil {
				e.solver.SyncTo(st.pcList())
				if r, m2 := e.solver.CheckModel(nil, e.inputVars(st, nil)); r == Sat {
					mdl = m2
				}
			}
			var cs []string
			for k := range st.covers {
				cs = append(cs, k)
			}
			sort.Strings(cs)
			e.pathModels[slot] = pathSample{inputs: st.inputs, observes: st.observes, model: mdl, covers: cs, hasModel: mdl != nil || st.pc == nil}
		}
	}
}

// Run explores all paths from the given initial state.
func (e *Engine) Run(init *State) {
	e.work = append(e.work, init)
	for len(e.work) > 0 {
		st := e.work[len(e.work)-1]
		e.work = e.work[:len(e.work)-1]
		if e.cfg.MaxPaths > 0 && e.stats.Paths >= e.cfg.MaxPaths {
			e.stats.Unsupported["max paths exceeded"]++
			return
		}
		if !deadline.IsZero() && time.Now().After(deadline) {
			e.stats.Unsupported["wall-clock budget exceeded (exploration incomplete)"]++
			e.work = nil
			return
		}
		if e.splitMode && len(st.decisions) >= e.splitDepth {
			e.splitOut = append(e.splitOut, st.decisions)
			continue
		}
		e.runState(st)
	}
}

func (e *Engine) runState(st *State) {
	e.curSt = st
	forked := false
	func() {
		defer func() {
			if r := recover(); r != nil {
				switch x := r.(type) {
				case forkedSignal:
					forked = true
				case pathEnd:
					st.done = true
				case engineErr:
					e.stats.Unsupported["engine: "+x.msg]++
					if e.trace {
						fmt.Fprintf(os.Stderr, "ENGINE ERROR: %s\n%s", x.msg, e.stackString(st))
					}
					st.done = true
				case runtime.Error:
					e.stats.Unsupported["internal: "+x.Error()]++
					if e.trace {
						fmt.Fprintf(os.Stderr, "INTERNAL ERROR: %v\n%s", x, e.stackString(st))
					}
					st.done = true
				default:
					fmt.Fprintf(os.Stderr, "INTERNAL PANIC: %v\n%s", r, e.stackString(st))
					panic(r)
				}
			}
		}()
		for !st.done {
			e.stepGuard(st)
		}
	}()
	if forked {
		return
	}
	e.endPath(st)
}

func (e *Engine) stepGuard(st *State) {
	defer func() {
		if r := recover(); r != nil {
			if _, ok := r.(goPanicSignal); ok {
				return
			}
			panic(r)
		}
	}()
	e.step(st)
}

func (e *Engine) step(st *State) {
	f := st.top()
	if f.pc >= len(f.block.Instrs) {
		panic(engineErr{"fell off block in " + f.fn.String()})
	}
	ins := f.block.Instrs[f.pc]
	st.steps++
	e.stats.Instrs++
	f.info.count++
	if e.cfg.MaxSteps > 0 && st.steps > e.cfg.MaxSteps {
		e.stats.UnwindFail["step budget in "+f.fn.String()]++
		st.done = true
		panic(pathEnd{"step budget"})
	}
	e.exec(st, f, ins)
}

func (e *Engine) jump(st *State, f *Frame, to *ssa.BasicBlock) {
	if to.Index <= f.block.Index {
		// back edge (approximation by block order): count visits
		if f.visits == nil {
			f.visits = map[int]int{}
		}
		f.visits[to.Index]++
		if e.cfg.Unwind > 0 && f.visits[to.Index] > e.cfg.Unwind {
			e.stats.UnwindFail[f.fn.String()]++
			st.done = true
			panic(pathEnd{"unwind bound"})
		}
	}
	f.prev = f.block
	f.block = to
	f.pc = 0
}

func (e *Engine) exec(st *State, f *Frame, ins ssa.Instruction) {
	switch ins := ins.(type) {
	case *ssa.DebugRef:
		f.pc++
	case *ssa.Phi:
		// evaluate all phis of the block simultaneously
		var idx int = -1
		for i, p := range f.block.Preds {
			if p == f.prev {
				idx = i
				break
			}
		}
		if idx < 0 {
			panic(engineErr{"phi: predecessor not found"})
		}
		var phis []*ssa.Phi
		var vals []Value
		for _, in2 := range f.block.Instrs[f.pc:] {
			p, ok := in2.(*ssa.Phi)
			if !ok {
				break
			}
			phis = append(phis, p)
			vals = append(vals, e.get(st, f, p.Edges[idx]))
		}
		for i, p := range phis {
			e.set(f, p, vals[i])
		}
		f.pc += len(phis)
	case *ssa.Alloc:
		t := ins.Type().(*types.Pointer).Elem()
		id := e.allocType(st, t)
		e.set(f, ins, PtrVal{obj: id})
		f.pc++
	case *ssa.UnOp:
		e.execUnOp(st, f, ins)
	case *ssa.BinOp:
		x := e.get(st, f, ins.X)
		y := e.get(st, f, ins.Y)
		e.execBinOp(st, f, ins, x, y)
	case *ssa.Store:
		p := e.get(st, f, ins.Addr)
		v := e.get(st, f, ins.Val)
		e.storeThrough(st, p, v)
		f.pc++
	case *ssa.Jump:
		e.jump(st, f, f.block.Succs[0])
	case *ssa.If:
		c := e.get(st, f, ins.Cond).(*Term)
		if c.IsConst() {
			if c.IsTrue() {
				e.jump(st, f, f.block.Succs[0])
			} else {
				e.jump(st, f, f.block.Succs[1])
			}
			return
		}
		tb, fb := f.block.Succs[0], f.block.Succs[1]
		e.fork(st, []Alt{
			{c, func(s *State) { e.jump(s, s.top(), tb) }},
			{e.ctx.Not(c), func(s *State) { e.jump(s, s.top(), fb) }},
		})
	case *ssa.Return:
		var res Value
		switch len(ins.Results) {
		case 0:
		case 1:
			res = e.get(st, f, ins.Results[0])
		default:
			t := make(TupleVal, len(ins.Results))
			for i, r := range ins.Results {
				t[i] = e.get(st, f, r)
			}
			res = t
		}
		e.popFrame(st, res)
	case *ssa.RunDefers:
		e.runDefers(st)
	case *ssa.Panic:
		if e.initMode {
			panic(engineErr{"explicit panic during package init"})
		}
		v := e.get(st, f, ins.X)
		msg := e.describePanic(st, v)
		e.startPanic(st, v, msg)
	case *ssa.Call:
		e.execCall(st, f, &ins.Call, retToReg, ins)
	case *ssa.Defer:
		fv, args := e.resolveCall(st, f, &ins.Call)
		f.defers = append(f.defers, deferRec{fn: fv, args: args})
		f.pc++
	case *ssa.Go:
		fv, args := e.resolveCall(st, f, &ins.Call)
		name := "?"
		if fv.fn != nil {
			name = fv.fn.String()
		}
		pol := e.cfg.GoPolicy[name]
		if pol == "" {
			pol = e.cfg.GoPolicy["*"]
		}
		switch pol {
		case "skip":
			f.pc++
		case "inline":
			e.callValue(st, fv, args, retDiscard, ins)
		case "lazy":
			// second fixed schedule: the goroutine does not run until the spawning thread
			// blocks (select / receive with nothing ready) or the harness ends
			st.goDeferred = append(st.goDeferred, deferRec{fn: fv, args: args})
			f.pc++
		default:
			e.unsupported(st, "go statement: "+name)
		}
	case *ssa.FieldAddr:
		p := e.get(st, f, ins.X).(PtrVal)
		if p.obj == 0 {
			e.goPanic(st, "runtime error: invalid memory address or nil pointer dereference")
			return
		}
		stt := ins.X.Type().Underlying().(*types.Pointer).Elem().Underlying().(*types.Struct)
		e.set(f, ins, PtrVal{obj: p.obj, off: p.off + e.fieldOffset(stt, ins.Field)})
		f.pc++
	case *ssa.Field:
		a := e.get(st, f, ins.X).(AggVal)
		stt := ins.X.Type().Underlying().(*types.Struct)
		off := e.fieldOffset(stt, ins.Field)
		ft := stt.Field(ins.Field).Type()
		e.set(f, ins, e.unflatten(a.slots[off:off+e.slotsOf(ft)], ft))
		f.pc++
	case *ssa.IndexAddr:
		e.execIndexAddr(st, f, ins)
	case *ssa.Index:
		e.execIndex(st, f, ins)
	case *ssa.Lookup:
		e.execLookup(st, f, ins)
	case *ssa.Slice:
		e.execSlice(st, f, ins)
	case *ssa.MakeSlice:
		e.execMakeSlice(st, f, ins)
	case *ssa.MakeMap:
		id := e.newObj(st, &Object{kind: ObjMap})
		e.set(f, ins, MapVal{obj: id})
		f.pc++
	case *ssa.MakeChan:
		n := e.concreteInt(st, e.get(st, f, ins.Size), "chan size")
		id := e.newObj(st, &Object{kind: ObjChan, bufcap: n})
		e.set(f, ins, ChanVal{obj: id})
		f.pc++
	case *ssa.MapUpdate:
		e.execMapUpdate(st, f, ins)
	case *ssa.MakeInterface:
		e.set(f, ins, IfaceVal{typ: ins.X.Type(), v: e.get(st, f, ins.X)})
		f.pc++
	case *ssa.ChangeInterface:
		e.set(f, ins, e.get(st, f, ins.X))
		f.pc++
	case *ssa.ChangeType:
		e.set(f, ins, e.get(st, f, ins.X))
		f.pc++
	case *ssa.Convert:
		e.set(f, ins, e.convert(st, e.get(st, f, ins.X), ins.X.Type(), ins.Type()))
		f.pc++
	case *ssa.MultiConvert:
		e.set(f, ins, e.convert(st, e.get(st, f, ins.X), ins.X.Type(), ins.Type()))
		f.pc++
	case *ssa.MakeClosure:
		fn := ins.Fn.(*ssa.Function)
		caps := make([]Value, len(ins.Bindings))
		for i, b := range ins.Bindings {
			caps[i] = e.get(st, f, b)
		}
		e.set(f, ins, FuncVal{fn: fn, caps: caps})
		f.pc++
	case *ssa.Extract:
		t := e.get(st, f, ins.Tuple).(TupleVal)
		e.set(f, ins, t[ins.Index])
		f.pc++
	case *ssa.TypeAssert:
		e.execTypeAssert(st, f, ins)
	case *ssa.Range:
		e.execRange(st, f, ins)
	case *ssa.Next:
		e.execNext(st, f, ins)
	case *ssa.Select:
		e.execSelect(st, f, ins)
	case *ssa.Send:
		ch := e.get(st, f, ins.Chan).(ChanVal)
		if ch.obj == 0 {
			e.unsupported(st, "send on nil chan")
		}
		o := e.wobj(st, ch.obj)
		if o.closed {
			e.goPanic(st, "send on closed channel")
			return
		}
		if len(o.buf) >= o.bufcap {
			e.unsupported(st, "blocking channel send")
		}
		o.buf = append(o.buf, e.get(st, f, ins.X))
		f.pc++
	case *ssa.SliceToArrayPointer:
		s := e.get(st, f, ins.X).(SliceVal)
		at := ins.Type().(*types.Pointer).Elem().Underlying().(*types.Array)
		if int(at.Len()) > s.len {
			e.goPanic(st, "runtime error: cannot convert slice to array pointer")
			return
		}
		e.set(f, ins, PtrVal{obj: s.obj, off: s.off})
		f.pc++
	default:
		e.unsupported(st, fmt.Sprintf("instruction %T", ins))
	}
}

func (e *Engine) describePanic(st *State, v Value) string {
	if iv, ok := v.(IfaceVal); ok {
		if iv.typ == nil {
			return "panic(nil)"
		}
		if s, ok := iv.v.(StrVal); ok {
			if cs, ok := e.concreteString(st, s); ok {
				return "panic: " + cs
			}
			return "panic: <symbolic string>"
		}
		// error values: try errorString
		if p, ok := iv.v.(PtrVal); ok && p.obj != 0 {
			o := e.obj(st, p.obj)
			if len(o.slots) >= 1 {
				if s, ok := o.slots[0].(StrVal); ok {
					if cs, ok := e.concreteString(st, s); ok {
						return "panic: " + iv.typ.String() + ": " + cs
					}
				}
			}
		}
		return "panic: value of type " + iv.typ.String()
	}
	return "panic"
}

func (e *Engine) storeThrough(st *State, p Value, v Value) {
	switch p := p.(type) {
	case PtrVal:
		e.store(st, p, v)
	default:
		panic(engineErr{fmt.Sprintf("store through %T", p)})
	}
}

func (e *Engine) concreteInt(st *State, v Value, what string) int {
	t, ok := v.(*Term)
	if !ok {
		panic(engineErr{fmt.Sprintf("%s: not an int (%T)", what, v)})
	}
	if !t.IsConst() {
		e.unsupported(st, "symbolic "+what)
	}
	return int(t.Signed())
}

// ---------- unary ops ----------

func (e *Engine) execUnOp(st *State, f *Frame, ins *ssa.UnOp) {
	x := e.get(st, f, ins.X)
	switch ins.Op {
	case token.MUL: // load
		switch p := x.(type) {
		case PtrVal:
			v := e.load(st, p, ins.Type())
			e.set(f, ins, v)
		case symPtr:
			e.set(f, ins, e.loadSym(st, p))
		default:
			panic(engineErr{fmt.Sprintf("load through %T", x)})
		}
		f.pc++
	case token.NOT:
		e.set(f, ins, e.ctx.Not(x.(*Term)))
		f.pc++
	case token.SUB:
		switch x := x.(type) {
		case *Term:
			e.set(f, ins, e.ctx.Neg(x))
		case FloatVal:
			e.set(f, ins, FloatVal{-x.f, x.w})
		default:
			panic(engineErr{"neg of non-number"})
		}
		f.pc++
	case token.XOR:
		e.set(f, ins, e.ctx.BNot(x.(*Term)))
		f.pc++
	case token.ARROW:
		ch := x.(ChanVal)
		if ch.obj == 0 {
			e.unsupported(st, "receive from nil chan")
		}
		o := e.obj(st, ch.obj)
		et := ins.X.Type().Underlying().(*types.Chan).Elem()
		var v Value
		ok := true
		if len(o.buf) > 0 {
			wo := e.wobj(st, ch.obj)
			v = wo.buf[0]
			wo.buf = wo.buf[1:]
		} else if o.closed {
			v = e.zeroValue(et)
			ok = false
		} else if e.runLazyGo(st, ins) {
			return
		} else if o.isTimer && o.timerActive && !o.hasAfter {
			// nothing else can happen: the armed timer/ticker fires
			st.clock += e.fireTimer(st, ch.obj)
			v = AggVal{[]Value{e.ctx.BV(64, 1<<63), e.ctx.BV(64, uint64(st.clock)), PtrVal{}}}
		} else if e.fireAfterFunc(st, ins) {
			return
		} else {
			e.unsupported(st, "blocking channel receive")
		}
		if ins.CommaOk {
			e.set(f, ins, TupleVal{v, e.ctx.Bool(ok)})
		} else {
			e.set(f, ins, v)
		}
		f.pc++
	default:
		e.unsupported(st, "unop "+ins.Op.String())
	}
}

// symPtr: pointer to one of cnt single-slot cells selected by a symbolic index (loads only).
type symPtr struct {
	obj  int
	off  int
	idx  *Term // 64-bit
	cnt  int
}

func (e *Engine) loadSym(st *State, p symPtr) Value {
	o := e.obj(st, p.obj)
	cells := o.slots[p.off : p.off+p.cnt]
	return e.selectTree(cells, p.idx, 0, p.cnt)
}

// selectTree builds ite tree over cells[lo:hi) selected by idx (assumed in range).
func (e *Engine) selectTree(cells []Value, idx *Term, lo, hi int) Value {
	if hi-lo == 1 {
		return cells[lo]
	}
	// all equal?
	same := true
	for i := lo + 1; i < hi; i++ {
		if cells[i] != cells[lo] {
			same = false
			break
		}
	}
	if same {
		return cells[lo]
	}
	// affine run: cells[i] == i + k (mod 256) for constant bytes, e.g. identity / case tables
	if t0, ok := cells[lo].(*Term); ok && t0.IsConst() && t0.w == 8 && hi <= 256 {
		k := (t0.val - uint64(lo)) & 0xff
		affine := true
		for i := lo + 1; i < hi; i++ {
			ti, ok := cells[i].(*Term)
			if !ok || !ti.IsConst() || ti.w != 8 || (ti.val-uint64(i))&0xff != k {
				affine = false
				break
			}
		}
		if affine {
			return e.ctx.Bin(OpAdd, e.ctx.Extract(idx, 7, 0), e.ctx.BV(8, k))
		}
	}
	mid := (lo + hi) / 2
	a := e.selectTree(cells, idx, lo, mid)
	b := e.selectTree(cells, idx, mid, hi)
	at, ok1 := a.(*Term)
	bt, ok2 := b.(*Term)
	if !ok1 || !ok2 {
		panic(engineErr{"symbolic index over non-scalar cells"})
	}
	return e.ctx.Ite(e.ctx.Cmp(OpUlt, idx, e.ctx.BV(idx.w, uint64(mid))), at, bt)
}

// ---------- binary ops ----------

func (e *Engine) execBinOp(st *State, f *Frame, ins *ssa.BinOp, x, y Value) {
	t := ins.X.Type()
	switch ins.Op {
	case token.EQL, token.NEQ:
		eq := e.equalValues(st, x, y, t)
		if ins.Op == token.NEQ {
			eq = e.ctx.Not(eq)
		}
		e.set(f, ins, eq)
		f.pc++
		return
	}
	switch xv := x.(type) {
	case *Term:
		yv := y.(*Term)
		w, signed, _ := intType(t)
		c := e.ctx
		var r *Term
		switch ins.Op {
		case token.ADD:
			r = c.Bin(OpAdd, xv, yv)
		case token.SUB:
			r = c.Bin(OpSub, xv, yv)
		case token.MUL:
			r = c.Bin(OpMul, xv, yv)
		case token.QUO, token.REM:
			// division by zero check
			zero := c.Eq(yv, c.BV(yv.w, 0))
			op := OpUDiv
			if ins.Op == token.REM {
				op = OpURem
			}
			if signed {
				op = OpSDiv
				if ins.Op == token.REM {
					op = OpSRem
				}
			}
			if zero.IsTrue() {
				e.goPanic(st, "runtime error: integer divide by zero")
				return
			}
			if !zero.IsFalse() {
				e.fork(st, []Alt{
					{zero, func(s *State) { e.goPanicIn(s, "runtime error: integer divide by zero") }},
					{c.Not(zero), func(s *State) {
						ff := s.top()
						e.set(ff, ins, c.Bin(op, xv, yv))
						ff.pc++
					}},
				})
				return
			}
			r = c.Bin(op, xv, yv)
		case token.AND:
			if w == 0 {
				r = c.And(xv, yv)
			} else {
				r = c.Bin(OpBAnd, xv, yv)
			}
		case token.OR:
			if w == 0 {
				r = c.Or(xv, yv)
			} else {
				r = c.Bin(OpBOr, xv, yv)
			}
		case token.XOR:
			r = c.Bin(OpBXor, xv, yv)
		case token.AND_NOT:
			r = c.Bin(OpBAnd, xv, c.BNot(yv))
		case token.SHL, token.SHR:
			// shift count may have a different width; Go: count >= width gives 0 (or sign fill)
			_, ysigned, _ := intType(ins.Y.Type())
			if ysigned {
				neg := c.Cmp(OpSlt, yv, c.BV(yv.w, 0))
				if neg.IsTrue() {
					e.goPanic(st, "runtime error: negative shift amount")
					return
				}
				if !neg.IsFalse() {
					e.unsupported(st, "possibly negative symbolic shift amount")
				}
			}
			var cnt *Term
			if yv.w > xv.w {
				// saturate
				big := c.Cmp(OpUle, c.BV(yv.w, uint64(xv.w)), yv)
				cnt = c.Ite(big, c.BV(xv.w, uint64(xv.w)), c.Extract(yv, xv.w-1, 0))
			} else {
				cnt = c.Zext(yv, xv.w)
			}
			if ins.Op == token.SHL {
				r = c.Bin(OpShl, xv, cnt)
			} else if signed {
				r = c.Bin(OpAShr, xv, cnt)
			} else {
				r = c.Bin(OpLShr, xv, cnt)
			}
		case token.LSS:
			if signed {
				r = c.Cmp(OpSlt, xv, yv)
			} else {
				r = c.Cmp(OpUlt, xv, yv)
			}
		case token.LEQ:
			if signed {
				r = c.Cmp(OpSle, xv, yv)
			} else {
				r = c.Cmp(OpUle, xv, yv)
			}
		case token.GTR:
			if signed {
				r = c.Cmp(OpSlt, yv, xv)
			} else {
				r = c.Cmp(OpUlt, yv, xv)
			}
		case token.GEQ:
			if signed {
				r = c.Cmp(OpSle, yv, xv)
			} else {
				r = c.Cmp(OpUle, yv, xv)
			}
		default:
			e.unsupported(st, "binop "+ins.Op.String())
		}
		e.set(f, ins, r)
		f.pc++
	case FloatVal:
		yv := y.(FloatVal)
		var r Value
		switch ins.Op {
		case token.ADD:
			r = FloatVal{xv.f + yv.f, xv.w}
		case token.SUB:
			r = FloatVal{xv.f - yv.f, xv.w}
		case token.MUL:
			r = FloatVal{xv.f * yv.f, xv.w}
		case token.QUO:
			r = FloatVal{xv.f / yv.f, xv.w}
		case token.LSS:
			r = e.ctx.Bool(xv.f < yv.f)
		case token.LEQ:
			r = e.ctx.Bool(xv.f <= yv.f)
		case token.GTR:
			r = e.ctx.Bool(xv.f > yv.f)
		case token.GEQ:
			r = e.ctx.Bool(xv.f >= yv.f)
		default:
			e.unsupported(st, "float binop "+ins.Op.String())
		}
		if fv, ok := r.(FloatVal); ok && fv.w == 32 {
			r = FloatVal{float64(float32(fv.f)), 32}
		}
		e.set(f, ins, r)
		f.pc++
	case StrVal:
		yv := y.(StrVal)
		switch ins.Op {
		case token.ADD:
			bs := append(append([]Value(nil), e.strBytes(st, xv)...), e.strBytes(st, yv)...)
			e.set(f, ins, e.newString(st, bs))
		case token.LSS, token.LEQ, token.GTR, token.GEQ:
			lt := e.strLess(st, xv, yv, false)
			switch ins.Op {
			case token.LSS:
				e.set(f, ins, lt)
			case token.GEQ:
				e.set(f, ins, e.ctx.Not(lt))
			case token.GTR:
				e.set(f, ins, e.strLess(st, yv, xv, false))
			case token.LEQ:
				e.set(f, ins, e.ctx.Not(e.strLess(st, yv, xv, false)))
			}
		default:
			e.unsupported(st, "string binop "+ins.Op.String())
		}
		f.pc++
	default:
		e.unsupported(st, fmt.Sprintf("binop %s on %T", ins.Op, x))
	}
}

func (e *Engine) goPanicIn(st *State, msg string) {
	defer func() {
		if r := recover(); r != nil {
			if _, ok := r.(goPanicSignal); ok {
				return
			}
			panic(r)
		}
	}()
	e.goPanic(st, msg)
}

// strLess: lexicographic a < b as a term.
func (e *Engine) strLess(st *State, a, b StrVal, orEq bool) *Term {
	ab, bb := e.strBytes(st, a), e.strBytes(st, b)
	c := e.ctx
	n := len(ab)
	if len(bb) < n {
		n = len(bb)
	}
	// result for equal prefixes
	res := c.Bool(len(ab) < len(bb))
	for i := n - 1; i >= 0; i-- {
		x, y := ab[i].(*Term), bb[i].(*Term)
		res = c.Ite(c.Cmp(OpUlt, x, y), c.True, c.Ite(c.Cmp(OpUlt, y, x), c.False, res))
	}
	return res
}

func (e *Engine) bytesEqual(a, b []Value) *Term {
	c := e.ctx
	if len(a) != len(b) {
		return c.False
	}
	r := c.True
	for i := range a {
		r = c.And(r, c.Eq(a[i].(*Term), b[i].(*Term)))
		if r.IsFalse() {
			return r
		}
	}
	return r
}

func (e *Engine) equalValues(st *State, x, y Value, t types.Type) *Term {
	c := e.ctx
	switch xv := x.(type) {
	case *Term:
		return c.Eq(xv, y.(*Term))
	case FloatVal:
		return c.Bool(xv.f == y.(FloatVal).f)
	case StrVal:
		yv := y.(StrVal)
		if xv.len != yv.len {
			return c.False
		}
		if xv.len == 0 || (xv.obj == yv.obj && xv.off == yv.off) {
			return c.True
		}
		return e.bytesEqual(e.strBytes(st, xv), e.strBytes(st, yv))
	case PtrVal:
		switch yv := y.(type) {
		case PtrVal:
			return c.Bool(xv.obj == yv.obj && (xv.obj == 0 || xv.off == yv.off))
		}
		return c.False
	case SliceVal: // only comparable to nil
		yv := y.(SliceVal)
		return c.Bool(xv.obj == 0 && yv.obj == 0 || (xv.obj == yv.obj && xv.off == yv.off && xv.len == yv.len && false))
	case MapVal:
		return c.Bool(xv.obj == y.(MapVal).obj)
	case ChanVal:
		return c.Bool(xv.obj == y.(ChanVal).obj)
	case FuncVal:
		yv := y.(FuncVal)
		return c.Bool(xv.nilFn && yv.nilFn)
	case IfaceVal:
		yv, ok := y.(IfaceVal)
		if !ok {
			return c.False
		}
		if xv.typ == nil || yv.typ == nil {
			return c.Bool(xv.typ == nil && yv.typ == nil)
		}
		if !types.Identical(xv.typ, yv.typ) {
			return c.False
		}
		if !types.Comparable(xv.typ) {
			// Go: comparing two interface values with identical dynamic types that are not
			// comparable panics at run time
			e.goPanic(st, "runtime error: comparing uncomparable type "+xv.typ.String())
		}
		return e.equalValues(st, xv.v, yv.v, xv.typ)
	case AggVal:
		yv := y.(AggVal)
		r := c.True
		// compare slot-wise using leaf comparison
		for i := range xv.slots {
			r = c.And(r, e.equalValues(st, xv.slots[i], yv.slots[i], nil))
		}
		return r
	case ComplexVal:
		return c.Bool(xv.c == y.(ComplexVal).c)
	}
	panic(engineErr{fmt.Sprintf("equalValues on %T", x)})
}

// ---------- conversion ----------

func (e *Engine) convert(st *State, x Value, from, to types.Type) Value {
	c := e.ctx
	ut, uf := to.Underlying(), from.Underlying()
	switch xv := x.(type) {
	case *Term:
		if tw, _, ok := intType(to); ok {
			_, fsigned, _ := intType(from)
			if tw == 0 {
				return xv
			}
			if xv.w == tw {
				return xv
			}
			if xv.w > tw {
				return c.Extract(xv, tw-1, 0)
			}
			if fsigned {
				return c.Sext(xv, tw)
			}
			return c.Zext(xv, tw)
		}
		if fw, ok := isFloat(to); ok {
			if !xv.IsConst() {
				e.unsupported(st, "symbolic int to float")
			}
			_, fsigned, _ := intType(from)
			var fl float64
			if fsigned {
				fl = float64(xv.Signed())
			} else {
				fl = float64(xv.val)
			}
			if fw == 32 {
				fl = float64(float32(fl))
			}
			return FloatVal{fl, fw}
		}
		if isString(to) {
			if !xv.IsConst() {
				e.unsupported(st, "symbolic rune to string")
			}
			return e.newString(st, e.byteVals([]byte(string(rune(xv.Signed())))))
		}
		if b, ok := ut.(*types.Basic); ok && b.Kind() == types.UnsafePointer {
			if xv.IsConst() && xv.val == 0 {
				return PtrVal{}
			}
			e.unsupported(st, "uintptr to unsafe.Pointer")
		}
	case FloatVal:
		if fw, ok := isFloat(to); ok {
			fl := xv.f
			if fw == 32 {
				fl = float64(float32(fl))
			}
			return FloatVal{fl, fw}
		}
		if tw, signed, ok := intType(to); ok {
			if math.IsNaN(xv.f) || math.IsInf(xv.f, 0) {
				return c.BV(tw, 1<<63)
			}
			if signed {
				return c.BV(tw, uint64(int64(xv.f)))
			}
			return c.BV(tw, uint64(xv.f))
		}
	case StrVal:
		if isString(to) {
			return xv
		}
		if sl, ok := ut.(*types.Slice); ok {
			if b, ok := sl.Elem().Underlying().(*types.Basic); ok && b.Kind() == types.Uint8 {
				if xv.len == 0 {
					// non-nil empty slice
					id := e.allocMem(st, []Value{}, "bytes")
					return SliceVal{obj: id, esz: 1}
				}
				cp := append([]Value(nil), e.strBytes(st, xv)...)
				id := e.allocMem(st, cp, "bytes")
				return SliceVal{obj: id, off: 0, len: xv.len, cap: xv.len, esz: 1}
			}
			if b, ok := sl.Elem().Underlying().(*types.Basic); ok && b.Kind() == types.Int32 {
				s, ok := e.concreteString(st, xv)
				if !ok {
					e.unsupported(st, "symbolic string to []rune")
				}
				rs := []rune(s)
				slots := make([]Value, len(rs))
				for i, r := range rs {
					slots[i] = c.BV(32, uint64(r))
				}
				id := e.allocMem(st, slots, "runes")
				return SliceVal{obj: id, len: len(rs), cap: len(rs), esz: 1}
			}
		}
	case SliceVal:
		if isString(to) {
			fs := uf.(*types.Slice)
			if b, ok := fs.Elem().Underlying().(*types.Basic); ok && b.Kind() == types.Int32 {
				slots := e.sliceSlots(st, xv)
				// a constant rune is encoded concretely; a symbolic one must be ASCII on this path
				// (decided by the solver), where its encoding is its low byte
				var out []Value
				for _, s := range slots {
					t := s.(*Term)
					if t.IsConst() {
						out = append(out, e.byteVals([]byte(string(rune(t.Signed()))))...)
						continue
					}
					e.solver.SyncTo(st.pcList())
					if r := e.solver.Check(c.Cmp(OpUle, c.BV(32, 0x80), t)); r != Unsat {
						e.unsupported(st, "symbolic []rune to string: rune may be non-ASCII")
					}
					out = append(out, c.Extract(t, 7, 0))
				}
				return e.newString(st, out)
			}
			return e.newString(st, e.sliceSlots(st, xv))
		}
		if _, ok := ut.(*types.Slice); ok {
			return xv
		}
	case PtrVal:
		return xv
	case symPtr:
		return xv
	case FuncVal, MapVal, ChanVal, IfaceVal, AggVal:
		return x
	}
	e.unsupported(st, fmt.Sprintf("convert %s -> %s (%T)", from, to, x))
	return nil
}

func (e *Engine) byteVals(b []byte) []Value {
	out := make([]Value, len(b))
	for i, x := range b {
		out[i] = e.ctx.BV(8, uint64(x))
	}
	return out
}
