package main

func allProps() []PropSpec {
	return []PropSpec{
		{
			ID: "C07",
			Harnesses: []HarnessSpec{
				{Func: "ZZ_C07_H1", Pkg: "pkg/protocol", Quick: map[string]int{"N": 6}, Thorough: map[string]int{"N": 9}, Covers: []string{"reached-assert", "decoded-escape"}},
				{Func: "ZZ_C07_H2", Pkg: "pkg/protocol", Quick: map[string]int{"N": 7}, Thorough: map[string]int{"N": 10}, Covers: []string{"reached-assert", "popped-segment"}},
				{Func: "ZZ_C07_H3", Pkg: "pkg/protocol", Quick: map[string]int{"N": 5}, Thorough: map[string]int{"N": 7}, Covers: []string{"reached-assert"}},
				{Func: "ZZ_C07_H4", Pkg: "pkg/common/utils", Quick: map[string]int{"N": 7}, Thorough: map[string]int{"N": 10}, Covers: []string{"reached-assert", "shortened"}},
			},
			Assumptions: []string{"inputs longer than the stated N bytes are outside the claim", "Windows backslash branch is constant-false on this platform"},
		},
		{
			ID: "C08",
			Harnesses: []HarnessSpec{
				{Func: "ZZ_C08_H1", Pkg: "pkg/app", Quick: map[string]int{"N": 5}, Thorough: map[string]int{"N": 9}, Covers: []string{"reached-assert", "satisfiable", "suffix-form"}},
				{Func: "ZZ_C08_H2", Pkg: "pkg/app", Quick: map[string]int{"N": 8}, Thorough: map[string]int{"N": 10}, Covers: []string{"reached-assert", "accepted"}},
			},
			Assumptions: []string{"only the range arithmetic of the file handler is encoded; the file system, cache, compression and index pages are outside the claim", "range text <= N bytes after 'bytes='; content length any non-negative int64"},
		},
		{
			ID: "C03",
			Harnesses: []HarnessSpec{
				{Func: "ZZ_C03_URI", Pkg: "pkg/protocol", Quick: map[string]int{"N": 4}, Thorough: map[string]int{"N": 6}, Covers: []string{"reached-end"}},
				{Func: "ZZ_C03_Args", Pkg: "pkg/protocol", Quick: map[string]int{"N": 5}, Thorough: map[string]int{"N": 7}, Covers: []string{"reached-end"}},
				{Func: "ZZ_C03_Cookie", Pkg: "pkg/protocol", Quick: map[string]int{"N": 5}, Thorough: map[string]int{"N": 7}, Covers: []string{"reached-end"}},
				{Func: "ZZ_C03_CookieAttr", Pkg: "pkg/protocol", Quick: map[string]int{"L": 8, "V": 2}, Thorough: map[string]int{"L": 11, "V": 3}, Covers: []string{"reached-end", "parsed-ok"}},
				{Func: "ZZ_C03_ReqCookies", Pkg: "pkg/protocol", Quick: map[string]int{"N": 5}, Thorough: map[string]int{"N": 7}, Covers: []string{"reached-end"}},
				{Func: "ZZ_C03_Trailers", Pkg: "pkg/protocol", Quick: map[string]int{"N": 4}, Thorough: map[string]int{"N": 5}, Covers: []string{"reached-end"}},
				{Func: "ZZ_C03_Boundary", Pkg: "pkg/protocol", Quick: map[string]int{"N": 6}, Thorough: map[string]int{"N": 8}, Covers: []string{"reached-end"}},
				{Func: "ZZ_C03_ParseUint", Pkg: "pkg/protocol", Quick: map[string]int{"N": 6}, Thorough: map[string]int{"N": 10}, Covers: []string{"reached-end", "parsed"}},
			},
			Assumptions: []string{"time.Parse/ParseInLocation is an opaque stub that succeeds or fails nondeterministically", "inputs longer than the stated bounds are outside the claim"},
		},
	}
}
