package main

func allProps() []PropSpec {
	return []PropSpec{
		{
			ID: "C07",
			Harnesses: []HarnessSpec{
				{Func: "ZZ_C07_H1", Pkg: "pkg/protocol", Quick: map[string]int{"N": 6}, Thorough: map[string]int{"N": 9}, Covers: []string{"reached-assert", "decoded-escape"}},
				{Func: "ZZ_C07_H2", Pkg: "pkg/protocol", Quick: map[string]int{"N": 7}, Thorough: map[string]int{"N": 10}, Covers: []string{"reached-assert", "popped-segment"}},
				{Func: "ZZ_C07_H3", Pkg: "pkg/protocol", Quick: map[string]int{"N": 5}, Thorough: map[string]int{"N": 7}, Covers: []string{"reached-assert"}},
			},
			Assumptions: []string{"inputs longer than the stated N bytes are outside the claim", "Windows backslash branch is constant-false on this platform"},
		},
	}
}
