package main

func allProps() []PropSpec {
	return []PropSpec{
		{
			ID: "C01",
			Harnesses: []HarnessSpec{
				{Func: "ZZ_C01_H1", Pkg: "pkg/protocol/http1/req", Quick: map[string]int{"FULLNORM": 0}, Thorough: map[string]int{"FULLNORM": 1}, Covers: []string{"reached-assert", "recognised-content-length", "recognised-transfer-encoding"}},
				{Func: "ZZ_C01_H2", Pkg: "pkg/protocol/http1", Quick: map[string]int{"D": 2, "V": 3, "FRAG": 1}, Thorough: map[string]int{"D": 3, "V": 4, "FRAG": 2}, Covers: []string{"valid-reached", "invalid-reached"}},
				{Func: "ZZ_C01_H3", Pkg: "pkg/protocol/http1", Quick: map[string]int{"C": 2, "S": 2, "SL": 2, "FRAG": 1}, Thorough: map[string]int{"C": 3, "S": 3, "SL": 2, "FRAG": 2}, Covers: []string{"reached-assert", "two-chunks"}},
				{Func: "ZZ_C01_H4", Pkg: "pkg/protocol/http1", Quick: map[string]int{"K": 3, "FRAG": 3}, Thorough: map[string]int{"K": 4, "FRAG": 4}, Covers: []string{"reached-assert", "two-requests"}},
				{Func: "ZZ_C01_MP", Pkg: "pkg/protocol/http1", Covers: []string{"reached-assert"}, Unwind: 40000, MaxSteps: 8000000, Note: "multipart/form-data with the default form pre-parsing (the real mime/multipart.Reader runs from SSA): epilogue lengths around the parser's read-ahead, pipelined sentinel"},
				{Func: "ZZ_C14_H2", Pkg: "pkg/protocol/http1", Covers: []string{"reached-assert", "both-handled"}, Note: "pooled body stream reused on another connection after a failed release (shared with C14/C09)"},
				{Func: "ZZ_C01_BIG", Pkg: "pkg/protocol/http1", Covers: []string{"reached-assert"}, Unwind: 40000, MaxSteps: 8000000, Note: "body lengths 4095..4097 and 8191..8193, fixed and chunked, four fragmentations"},
				{Func: "ZZ_C14_H1", Pkg: "pkg/protocol/http1", Quick: map[string]int{"L": 4, "C": 2, "S": 3, "R": 2, "C01": 1}, Thorough: map[string]int{"L": 6, "C": 2, "S": 6, "R": 3, "C01": 1}, Covers: []string{"reached-assert"}, MaxSteps: 4000000, Note: "streaming mode: shared with C14 (its pipelined-request-still-handled assertion is a C01 clause)"},
				{Func: "ZZ_C14_H4", Pkg: "pkg/protocol/http1", Quick: map[string]int{"L": 3, "C": 2, "S": 3, "R": 2, "C01": 1}, Thorough: map[string]int{"L": 4, "C": 2, "S": 3, "R": 3, "C01": 1}, Covers: []string{"reached-assert", "sentinel-handled"}, MaxSteps: 4000000, Note: "streaming mode, two-fragment delivery with the cut at every position of the body: shared with C14"},
			},
			Assumptions: []string{"transport: the real standard.Conn over a harness net.Conn; netpoll is outside", "bodies are a few bytes; buffer-boundary sizes (4 KiB/8 KiB) are C13/C14's subject", "Content-Length spellings valid only with HTAB as OWS are in neither obligation (refusing them is safe)", "multipart pre-parsing disabled except in ZZ_C01_MP (one small form, epilogue lengths 0..9000)"},
		},
		{
			ID: "C02",
			Harnesses: []HarnessSpec{
				{Func: "ZZ_C02_H1", Pkg: "pkg/protocol/http1", Quick: map[string]int{"SPLITS": 1}, Thorough: map[string]int{"SPLITS": 2}, Covers: []string{"reached-assert", "two-requests-served"}},
				{Func: "ZZ_C11_H2", Pkg: "pkg/protocol/http1/resp", Covers: []string{"reached-assert", "too-large", "byte-at-a-time"}, Note: "client direction: response reader, whole vs every split point and byte-at-a-time"},
			},
			Assumptions: []string{"server direction only in this revision (client response reading is covered by C11 harnesses when present)", "streams are the four templates in harness/pkg/protocol/http1/c02.go, one with two symbolic structural bytes; quick = every single split point, thorough = every pair of split points"},
		},
		{
			ID: "C07",
			Harnesses: []HarnessSpec{
				{Func: "ZZ_C07_H1", Pkg: "pkg/protocol", Quick: map[string]int{"N": 6}, Thorough: map[string]int{"N": 9}, Covers: []string{"reached-assert", "decoded-escape"}},
				{Func: "ZZ_C07_H2", Pkg: "pkg/protocol", Quick: map[string]int{"N": 7}, Thorough: map[string]int{"N": 10}, Covers: []string{"reached-assert", "popped-segment"}},
				{Func: "ZZ_C07_H3", Pkg: "pkg/protocol", Quick: map[string]int{"N": 5}, Thorough: map[string]int{"N": 7}, Covers: []string{"reached-assert"}},
				{Func: "ZZ_C07_H4", Pkg: "pkg/common/utils", Quick: map[string]int{"N": 7}, Thorough: map[string]int{"N": 10}, Covers: []string{"reached-assert", "shortened"}},
			},
			Assumptions: []string{"inputs longer than the stated N bytes are outside the claim", "Windows backslash branch is constant-false on this platform"},
		},
		{
			ID: "C08",
			Harnesses: []HarnessSpec{
				{Func: "ZZ_C08_H1", Pkg: "pkg/app", Quick: map[string]int{"N": 5}, Thorough: map[string]int{"N": 9}, Covers: []string{"reached-assert", "satisfiable", "suffix-form"}},
				{Func: "ZZ_C08_H2", Pkg: "pkg/app", Quick: map[string]int{"N": 8}, Thorough: map[string]int{"N": 10}, Covers: []string{"reached-assert", "accepted"}},
				{Func: "ZZ_C08_H3", Pkg: "pkg/app", Quick: map[string]int{"F": 2, "R": 3, "Q": 2}, Thorough: map[string]int{"F": 4, "R": 4, "Q": 2}, Unwind: 20000, Covers: []string{"reached-assert", "partial", "unsatisfiable", "head"}},
			},
			Assumptions: []string{"H1/H2: range arithmetic, range text <= N bytes after 'bytes=', content length any non-negative int64", "H3: fsHandler.handleRequest on an in-memory cache entry (file <= F symbolic bytes, or 8200 bytes with concrete ranges), range text <= R bytes, Q consecutive requests, GET and HEAD; opening files, directory listing, compression, cache expiry and If-Modified-Since are outside the claim"},
		},
		{
			ID: "C03",
			Harnesses: []HarnessSpec{
				{Func: "ZZ_C03_URI", Pkg: "pkg/protocol", Quick: map[string]int{"N": 4}, Thorough: map[string]int{"N": 6}, Covers: []string{"reached-end"}},
				{Func: "ZZ_C03_Args", Pkg: "pkg/protocol", Quick: map[string]int{"N": 5}, Thorough: map[string]int{"N": 7}, Covers: []string{"reached-end"}},
				{Func: "ZZ_C03_Cookie", Pkg: "pkg/protocol", Quick: map[string]int{"N": 5}, Thorough: map[string]int{"N": 7}, Covers: []string{"reached-end"}},
				{Func: "ZZ_C03_CookieAttr", Pkg: "pkg/protocol", Quick: map[string]int{"L": 8, "V": 2}, Thorough: map[string]int{"L": 11, "V": 3}, Covers: []string{"reached-end", "parsed-ok"}},
				{Func: "ZZ_C03_ReqCookies", Pkg: "pkg/protocol", Quick: map[string]int{"N": 5}, Thorough: map[string]int{"N": 7}, Covers: []string{"reached-end"}},
				{Func: "ZZ_C03_Trailers", Pkg: "pkg/protocol", Quick: map[string]int{"N": 4}, Thorough: map[string]int{"N": 5}, Covers: []string{"reached-end"}},
				{Func: "ZZ_C03_Boundary", Pkg: "pkg/protocol", Quick: map[string]int{"N": 6}, Thorough: map[string]int{"N": 8}, Covers: []string{"reached-end", "boundary-found"}},
				{Func: "ZZ_C03_ParseUint", Pkg: "pkg/protocol", Quick: map[string]int{"N": 6}, Thorough: map[string]int{"N": 10}, Covers: []string{"reached-end", "parsed"}},
				{Func: "ZZ_C03_HexInt", Pkg: "pkg/protocol/http1", Quick: map[string]int{"L": 17}, Thorough: map[string]int{"L": 20}, Covers: []string{"reached-assert", "parsed"}},
				{Func: "ZZ_C03_CLI", Pkg: "pkg/protocol/http1/resp", Quick: map[string]int{"W": 1}, Thorough: map[string]int{"W": 2, "ENUMCAP": 300}, Covers: []string{"reached-end", "accepted", "rejected"}, Note: "client response read path: one (two) symbolic bytes at every position of six response shapes"},
				{Func: "ZZ_C03_MP", Pkg: "pkg/protocol/http1", Covers: []string{"reached-assert", "over-limit", "corrupted-form-refused"}, Unwind: 40000, MaxSteps: 8000000, Note: "multipart/form-data with the default form pre-parsing (real mime/multipart.Reader from SSA): declared length above the limit, or one symbolic ASCII byte at every position of the form"},
				{Func: "ZZ_C03_LIMIT", Pkg: "pkg/protocol/http1", Covers: []string{"reached-assert"}, Note: "buffered mode, body limit one byte below the body of every template with a body (fixed, chunked, Expect: 100-continue, GET/HEAD with a body), whole and byte-wise: one 4xx + close, no handler"},
				{Func: "ZZ_C08_H3", Pkg: "pkg/app", Quick: map[string]int{"F": 2, "R": 3, "Q": 1, "PANICONLY": 1}, Thorough: map[string]int{"F": 3, "R": 4, "Q": 1, "PANICONLY": 1}, Unwind: 20000, Covers: []string{"reached-assert"}, Note: "Range header (untrusted) through the file handler on cached entries: no panic (C08's harness with its value assertions switched off)"},
				{Func: "ZZ_C03_SRV", Pkg: "pkg/protocol/http1", Quick: map[string]int{"W": 1}, Thorough: map[string]int{"W": 2, "ENUMCAP": 300}, Covers: []string{"reached-assert", "rejected", "accepted-both"}},
			},
			Assumptions: []string{"time.Parse/ParseInLocation is an opaque stub that succeeds or fails nondeterministically", "inputs longer than the stated bounds are outside the claim", "SRV at W=2 (thorough): two adjacent symbolic bytes that are both hexadecimal digits are excluded (a symbolic multi-digit length makes the heap shape symbolic); every single symbolic byte is covered at W=1"},
		},
		{
			ID: "C05",
			Harnesses: []HarnessSpec{
				{Func: "ZZ_C05_H1", Pkg: "pkg/protocol", Quick: map[string]int{"K": 3, "V": 3}, Thorough: map[string]int{"K": 4, "V": 5}, Covers: []string{"reached-assert", "line-emitted"}},
				{Func: "ZZ_C05_REQ", Pkg: "pkg/protocol", Quick: map[string]int{"K": 2, "V": 3}, Thorough: map[string]int{"K": 3, "V": 4}, Covers: []string{"reached-assert"}},
				{Func: "ZZ_C05_RESP", Pkg: "pkg/protocol", Quick: map[string]int{"K": 2, "V": 3}, Thorough: map[string]int{"K": 3, "V": 4}, Covers: []string{"reached-assert"}},
				{Func: "ZZ_C05_TRAILER", Pkg: "pkg/protocol", Quick: map[string]int{"K": 2, "V": 3}, Thorough: map[string]int{"K": 3, "V": 4}, Covers: []string{"reached-assert", "accepted"}},
				{Func: "ZZ_C05_GEN", Pkg: "pkg/protocol", Quick: map[string]int{"V": 3}, Thorough: map[string]int{"V": 5}, Covers: []string{"reached-assert"}, Note: "dispatch table generated on every run from the method sets of RequestHeader/ResponseHeader/Cookie/Trailer in /repo: every exported Set*/Add* method with string/[]byte parameters, each text parameter in turn symbolic"},
				{Func: "ZZ_C05_CTX", Pkg: "pkg/protocol/http1", Quick: map[string]int{"V": 2}, Thorough: map[string]int{"V": 3}, Covers: []string{"reached-assert"}, Note: "RequestContext helpers: Header, SetCookie (name/value/path/domain), Redirect, SetContentType"},
			},
			Assumptions: []string{"entry points are the hand-listed setters in harness/pkg/protocol/c05.go (12 request, 12 response, trailer Set)", "request method and request-target are not header-setting APIs and are outside the property's list", "values/keys longer than the bounds are outside the claim"},
		},
		{
			ID: "C17",
			Harnesses: []HarnessSpec{
				{Func: "ZZ_C17_H1", Pkg: "pkg/protocol", Quick: map[string]int{"N": 4}, Thorough: map[string]int{"N": 6}, Covers: []string{"reached-assert", "escaped-something"}},
				{Func: "ZZ_C17_H1P", Pkg: "pkg/protocol", Quick: map[string]int{"N": 5}, Thorough: map[string]int{"N": 8}, Covers: []string{"reached-assert"}},
				{Func: "ZZ_C17_H1D", Pkg: "pkg/protocol", Quick: map[string]int{"N": 5}, Thorough: map[string]int{"N": 7}, Covers: []string{"reached-assert", "has-escape"}},
				{Func: "ZZ_C17_H2", Pkg: "pkg/protocol", Quick: map[string]int{"M": 1}, Thorough: map[string]int{"M": 2}, Covers: []string{"reached-assert", "two-entries"}},
				{Func: "ZZ_C17_H4", Pkg: "pkg/protocol", Quick: map[string]int{"M": 1}, Thorough: map[string]int{"M": 2}, Covers: []string{"reached-assert"}},
				{Func: "ZZ_C17_H5", Pkg: "pkg/protocol", Quick: map[string]int{"N": 5}, Thorough: map[string]int{"N": 7}, Covers: []string{"reached-assert", "two-entries"}, Note: "symbolic query text into a fresh or recycled Args vs the net/url rule (ordered pairs, value-less keys, Peek)"},
				{Func: "ZZ_C17_H3", Pkg: "pkg/protocol", Quick: map[string]int{"M": 1, "P": 2}, Thorough: map[string]int{"M": 2, "P": 2}, Covers: []string{"reached-assert", "has-query-and-hash"}},
			},
			Assumptions: []string{"cookie expires (time formatting) is outside the claim; max-age ranges over 5 representative values", "agreement with net/url is checked against a reference implementing net/url.QueryUnescape's acceptance rule, not against net/url.ParseQuery on whole strings", "URI FullURI/Parse fixed point is checked in ZZ_C17_H3 when present"},
		},
		{
			ID: "C19",
			Harnesses: []HarnessSpec{
				{Func: "ZZ_C19_H1", Pkg: "pkg/protocol/http1", Quick: map[string]int{"K": 2, "OPS": 2, "TRUNCK": 1}, Thorough: map[string]int{"K": 2, "OPS": 4, "TRUNCK": 2}, Covers: []string{"reached-assert", "two-handled", "fault-hit", "hijacked"}, MaxSteps: 4000000},
				{Func: "ZZ_C19_H2", Pkg: "pkg/route", Covers: []string{"reached-assert"}, Note: "engine trace set-up: tracing enabled iff a tracer is registered, at every trace level"},
			},
			Assumptions: []string{"in-loop transport (standard.Conn); netpoll's return-to-poller mode is represented only by IdleTimeout == 0", "clock stub: monotonically increasing instants", "at most one injected fault per connection; request templates are concrete"},
		},
		{
			ID: "C14",
			Harnesses: []HarnessSpec{
				{Func: "ZZ_C14_H1", Pkg: "pkg/protocol/http1", Quick: map[string]int{"L": 6, "C": 2, "S": 6, "R": 3}, Thorough: map[string]int{"L": 9, "C": 2, "S": 7, "R": 4}, Covers: []string{"reached-assert", "stopped-mid-body", "read-to-eof"}, MaxSteps: 4000000},
				{Func: "ZZ_C14_H2", Pkg: "pkg/protocol/http1", Covers: []string{"reached-assert", "both-handled"}, Note: "pooled bodyStream reuse across two connections after a failed release (sync.Pool modelled LIFO)"},
				{Func: "ZZ_C14_BIG", Pkg: "pkg/protocol/http1", Covers: []string{"reached-assert", "read-beyond-prefetch", "pipelined-request-handled"}, Unwind: 40000, MaxSteps: 8000000, Note: "8 KiB regime: bodies of 8193..8201 and 9000 bytes, read buffers 16 B .. 16 KiB"},
				{Func: "ZZ_C14_H3", Pkg: "pkg/protocol/http1", Quick: map[string]int{"S": 3, "R": 3}, Thorough: map[string]int{"S": 5, "R": 4}, Covers: []string{"reached-assert", "connection-kept", "connection-closed-after-first", "ordinary-trailer-kept-the-connection"}, MaxSteps: 4000000, Note: "chunked body with ordinary / forbidden / malformed / symbolic trailer section: only the sentinel may follow"},
				{Func: "ZZ_C14_H4", Pkg: "pkg/protocol/http1", Quick: map[string]int{"L": 4, "C": 2, "S": 3, "R": 3}, Thorough: map[string]int{"L": 6, "C": 2, "S": 5, "R": 4}, Covers: []string{"reached-assert", "stopped-before-the-cut", "sentinel-handled"}, MaxSteps: 4000000, Note: "two-fragment delivery, the cut at every position of the body region; the rest of the body arrives bundled with the pipelined request"},
			},
			Assumptions: []string{"transport: real standard.Conn over a harness net.Conn, delivered whole or byte-at-a-time; netpoll outside", "small bodies (<= 9 bytes) with small prefetch limits plus the 8 KiB regime (ZZ_C14_BIG) with concrete pattern bodies", "read-buffer sizes from {0,1,3,16}"},
		},
		{
			ID: "C18",
			Harnesses: []HarnessSpec{
				{Func: "ZZ_C18_H1", Pkg: "pkg/protocol/http1", Covers: []string{"reached-assert", "stopped-during-first"}},
				{Func: "ZZ_C18_H2", Pkg: "pkg/route", Covers: []string{"reached-assert", "not-running", "running"}, GoPolicy: map[string]string{
					"(*github.com/cloudwego/hertz/pkg/route.Engine).Shutdown$1":               "inline",
					"(*github.com/cloudwego/hertz/pkg/route.Engine).executeOnShutdownHooks$1": "inline",
				}, Note: "the two goroutines of Shutdown (hook fan-out) are run to completion at their go statement: one fixed schedule"},
				{Func: "ZZ_C18_H3", Pkg: "pkg/route", Covers: []string{"reached-assert", "early-exit"}, GoPolicy: map[string]string{
					"(*github.com/cloudwego/hertz/pkg/route.Engine).Shutdown$1":               "lazy",
					"(*github.com/cloudwego/hertz/pkg/route.Engine).executeOnShutdownHooks$1": "inline",
				}, Note: "second fixed schedule: the hook goroutine runs only once Shutdown blocks waiting for it; registry / transport steps succeed or fail; all hooks have run when Shutdown returns"},
				{Func: "ZZ_C18_H4", Pkg: "pkg/route", Covers: []string{"reached-assert", "hook-failed"}, GoPolicy: map[string]string{
					"(*github.com/cloudwego/hertz/pkg/route.Engine).Shutdown$1":               "inline",
					"(*github.com/cloudwego/hertz/pkg/route.Engine).executeOnShutdownHooks$1": "inline",
				}, Note: "status machine around Run: a failing OnRun hook leaves the server not running; Shutdown of a server that is not running reports an error and fires no hook"},
			},
			Assumptions: []string{"only the sequential clauses of C18 are decided: the per-request exit check of the keep-alive loop, the Shutdown status machine, and 'hooks run before Shutdown returns' under two fixed schedules of the hook goroutine (as early / as late as possible); listener close, connection accounting in the transports, the wait bound and all other timing/interleaving clauses are outside this technique"},
		},
		{
			ID: "C06",
			Harnesses: []HarnessSpec{
				{Func: "ZZ_C06_H1", Pkg: "pkg/route", Quick: map[string]int{"N": 5}, Thorough: map[string]int{"N": 8}, Covers: []string{"reached-assert", "matched-with-param", "no-match"}},
				{Func: "ZZ_C06_H2", Pkg: "pkg/route", Quick: map[string]int{"R": 2, "N": 3}, Thorough: map[string]int{"R": 3, "N": 3}, Covers: []string{"reached-assert", "matched"}, Note: "two routes with symbolic bytes over {a b / : * p}: tree shapes chosen by the solver; both registration orders"},
				{Func: "ZZ_C06_H3", Pkg: "pkg/route", Quick: map[string]int{"N": 5}, Thorough: map[string]int{"N": 7}, Covers: []string{"reached-assert", "matched-with-param", "raw-path-with-escape", "extra-slash-removed"}, Note: "through Engine.ServeHTTP: symbolic request path over {a b / % 4 1 + x u}; default options and UseRawPath+UnescapePathValues; three route sets with backtracking"},
			},
			Assumptions: []string{"route sets: the 12-set catalogue in harness/pkg/route/c06.go, each in every registration order; request paths: '/' + every byte string up to N bytes", "lookup is the real router.find (raw-path unescaping, case-insensitive/trailing-slash redirects are outside)", "reference matcher implements the documented priority rule (DESIGN.md Appendix C)"},
		},
		{
			ID: "C12",
			Harnesses: []HarnessSpec{
				{Func: "ZZ_C12_H1", Pkg: "pkg/route", Quick: map[string]int{"N": 5}, Thorough: map[string]int{"N": 7}, Covers: []string{"reached-assert", "some-abort"}},
				{Func: "ZZ_C12_H2", Pkg: "pkg/route", Covers: []string{"reached-assert", "matched"}},
				{Func: "ZZ_C12_H3", Pkg: "pkg/route", Covers: []string{"reached-assert"}},
				{Func: "ZZ_C12_H4", Pkg: "pkg/route", Covers: []string{"reached-assert", "caller-slice"}, Note: "Any() routes under engine+group middleware for all nine methods; custom NoRoute/NoMethod installed before or after Use"},
			},
			Assumptions: []string{"chains up to N handlers over the seven behaviours of the property; group nesting depth <= 2 below the engine; Engine built without a transport and ServeHTTP called directly"},
		},
		{
			ID: "C11",
			Harnesses: []HarnessSpec{
				{Func: "ZZ_C11_H1", Pkg: "pkg/protocol/http1", Quick: map[string]int{"P": 1, "H": 1, "B": 1}, Thorough: map[string]int{"P": 2, "H": 2, "B": 2}, Covers: []string{"reached-assert", "with-body"}},
				{Func: "ZZ_C11_H2", Pkg: "pkg/protocol/http1/resp", Covers: []string{"reached-assert", "too-large", "byte-at-a-time"}},
				{Func: "ZZ_C11_BIG", Pkg: "pkg/protocol/http1", Covers: []string{"reached-assert"}, Unwind: 20000, MaxSteps: 8000000, Note: "8 KiB+ streamed request body across copy-buffer boundaries"},
				{Func: "ZZ_C11_MP", Pkg: "pkg/protocol", Quick: map[string]int{"F": 4, "V": 2}, Thorough: map[string]int{"F": 6, "V": 3}, Covers: []string{"reached-assert", "short-first-read"}, Unwind: 40000, MaxSteps: 8000000, Note: "multipart body assembly (WriteMultipartFormFile + AddMultipartFormField on the real mime/multipart.Writer run from SSA): symbolic file/field bytes, file reader returning short reads; random boundary and net/http.DetectContentType are stubs"},
				{Func: "ZZ_C11_H3", Pkg: "pkg/protocol/http1", Covers: []string{"reached-assert", "connection-reused"}, Unwind: 5000,
					GoPolicy: map[string]string{"(*github.com/cloudwego/hertz/pkg/protocol/http1.HostClient).connsCleaner": "skip"},
					Note: "response header names and values through HostClient.Do with header-name normalisation on and off, two exchanges over the reused connection"},
			},
			Assumptions: []string{"multipart bodies: only the assembly of parts (ZZ_C11_MP; random boundary and content sniffing stubbed) - the read-back through mime/multipart.Reader in handleMultipart and the server's multipart parser are outside; URL-encoded form bodies, proxy form, gzip helpers and HostClient.Do plumbing are outside", "the independent parser is the real hertz server (Serve over standard.Conn) plus the strict line reader of C05; net/http is not used as second decoder", "response templates: fixed, chunked+trailer, 204, 304, 100-continue+final, read-until-close with 3 symbolic body bytes and one symbolic header value byte"},
		},
		{
			ID: "C04",
			Harnesses: []HarnessSpec{
				{Func: "ZZ_C04_H1", Pkg: "pkg/protocol/http1", Quick: map[string]int{"K": 1, "NSTATUS": 9, "L": 3}, Thorough: map[string]int{"K": 2, "NSTATUS": 4, "L": 2}, Covers: []string{"reached-assert", "bodiless", "with-body"}, MaxSteps: 4000000},
				{Func: "ZZ_C04_BIG", Pkg: "pkg/protocol/http1", Covers: []string{"reached-assert"}, Unwind: 20000, MaxSteps: 8000000, Note: "8 KiB+ streamed body across copy-buffer boundaries (symbolic bytes at the boundaries)"},
				{Func: "ZZ_C04_POOL", Pkg: "pkg/protocol/http1/resp", Covers: []string{"reached-assert", "writer-reused"}, Note: "pooled chunked body writer handed back through its finalizer path (release) and reused for the next response (sync.Pool modelled LIFO)"},
				{Func: "ZZ_C04_SEQ", Pkg: "pkg/protocol/http1", Covers: []string{"reached-assert"}, Note: "second response on a keep-alive connection (recycled context) after a sized one: 204 / 304 / HEAD / empty / stream / sized; no framing left over"},
			},
			Assumptions: []string{"responses are produced by a handler inside the real Serve loop over the real standard.Conn and decoded by the strict reader in harness/pkg/protocol/http1/serve.go (not net/http)", "documented exclusion honoured: hijacked chunked writer on a response that may not have a body", "body sizes <= 3 bytes: the 4 KiB / MaxSmallFileSize flush thresholds are not exercised", "Date and Server headers disabled"},
		},
		{
			ID: "C13",
			Harnesses: []HarnessSpec{
				{Func: "ZZ_C13_H1", Pkg: "pkg/network/standard", Quick: map[string]int{"K": 3}, Thorough: map[string]int{"K": 4}, Covers: []string{"reached-assert", "crossed-node-boundary"}, Unwind: 40000, MaxSteps: 8000000},
				{Func: "ZZ_C13_H2", Pkg: "pkg/network/standard", Quick: map[string]int{"K": 3}, Thorough: map[string]int{"K": 4}, Covers: []string{"reached-assert"}, Unwind: 40000, MaxSteps: 8000000},
				{Func: "ZZ_C13_H3", Pkg: "pkg/network/standard", Quick: map[string]int{"K": 2}, Thorough: map[string]int{"K": 2}, Covers: []string{"reached-assert", "hit-end-of-input", "peek-beyond-end"}, Unwind: 40000, MaxSteps: 8000000, Note: "end of input at any point: stream of T bytes (T around node-boundary sizes or 0..3), four fragmentations, last bytes with or without the error in the same read"},
				{Func: "ZZ_C13_BIG", Pkg: "pkg/network/standard", Covers: []string{"reached-assert"}, Unwind: 2000000, MaxSteps: 200000000, Note: "the > 512 KiB regime: a Peek beyond the pooled-block limit gets its own node; consume, Release, keep reading"},
			},
			Assumptions: []string{"operation sequences of length K with sizes base+d, base in {1,1024,4096,8192}, d in [-1,1]; input fragmented as whole / 1000 / 4096 / 5000-byte reads", "mcache and sync.Pool are modelled as LIFO free lists that re-issue freed blocks (so use-after-release is observable)", "end of input: ZZ_C13_H3 (two operations); TLS conn, ReadFrom, the 512 KiB malloc limit, read errors other than end of input and write errors are outside"},
		},
		{
			ID: "C09",
			Harnesses: []HarnessSpec{
				{Func: "ZZ_C09_H1", Pkg: "pkg/protocol/http1", Covers: []string{"reached-assert"}, MaxSteps: 4000000},
				{Func: "ZZ_C09_H5", Pkg: "pkg/protocol/http1", Quick: map[string]int{"OPS": 3}, Thorough: map[string]int{"OPS": 5}, Covers: []string{"reached-assert", "first-connection-ended-in-error"}, MaxSteps: 4000000, Note: "context recycled after an exchange that ended in an I/O error (symbolic fault index), probe on a second connection drawing the same pooled context"},
				{Func: "ZZ_C09_H3", Pkg: "pkg/protocol", Covers: []string{"reached-assert"}, Note: "type-directed havoc of URI/Args/Cookie/Trailer/RequestHeader/ResponseHeader/Request/Response, then Reset, field-by-field comparison with a fresh object"},
				{Func: "ZZ_C09_H4", Pkg: "pkg/app", Covers: []string{"reached-assert"}, Note: "same for RequestContext.Reset / ResetWithoutConn"},
				{Func: "ZZ_C09_H2", Pkg: "pkg/protocol", Covers: []string{"reached-assert", "same-object-reissued"}, Note: "AcquireURI/Cookie/Request/Response after Release: 12 mutators each, pairs"},
				{Func: "ZZ_C14_H2", Pkg: "pkg/protocol/http1", Covers: []string{"reached-assert", "both-handled"}, Note: "pooled body stream reused on another connection after a failed release"},
			},
			Assumptions: []string{"sequential reuse only (sync.Pool modelled LIFO, so the recycled object really is the one handed out next); cross-goroutine migration and the race detector are outside this technique", "history = one or two mutators from the 30-entry list in harness/pkg/protocol/http1/c09.go with a symbolic argument byte, optionally followed by a recovered panic; observation = the dump in zzDump plus the probe's response bytes"},
		},
		{
			ID: "C20",
			Harnesses: []HarnessSpec{
				{Func: "ZZ_C20_H1", Pkg: "internal/tagexpr", Quick: map[string]int{"K": 2}, Thorough: map[string]int{"K": 3, "NUMS": 4}, Covers: []string{"reached-assert", "bool-result", "nan-result", "unspecified-value-evaluated"}, MaxSteps: 4000000},
				{Func: "ZZ_C20_H2", Pkg: "internal/tagexpr", Quick: map[string]int{"K": 2}, Thorough: map[string]int{"K": 3}, Covers: []string{"reached-assert", "found"}, MaxSteps: 4000000, Note: "precedence inside function arguments: in(<chain>, c), !in(...), len('..') as an arithmetic operand"},
				{Func: "ZZ_C20_H3", Pkg: "internal/tagexpr", Covers: []string{"reached-assert", "nil-field", "slice-field"}, MaxSteps: 4000000, Note: "field references $ / (F)$ with !, !! against boolean literals; field value injected through the interpreter's field table: nil, 0, 1, 7, true, false, '', 'ab', empty and non-empty []int (compared with itself)"},
				{Func: "ZZ_C20_H4", Pkg: "internal/tagexpr", Quick: map[string]int{"K": 4}, Thorough: map[string]int{"K": 5}, Covers: []string{"reached-assert", "bool-result"}, MaxSteps: 4000000, Note: "parenthesis-free runs of 4..K operators, one representative per precedence level in every order"},
				{Func: "ZZ_C20_H5", Pkg: "internal/tagexpr", Covers: []string{"reached-assert", "matched"}, MaxSteps: 4000000, Note: "regexp('<pattern>', '<text>') on string literals with !, !! and inside && || == (Go's regexp runs from SSA)"},
			},
			Assumptions: []string{"parser/evaluator kernel: literal operands (H1), in()/len() with literal arguments (H2), current-field references whose value is injected through the field table (H3); reflect-based struct walking, sub-selectors, maps/slices, regexp() and the validator front end are outside", "well-typed chains only (ill-typed ones are assumed away)", "operands from {0,1,2,3,7,true,false} (thorough: chains of three operators over {0,1,2,3}); one optional parenthesised group; spellings with single spaces or none (no '+'/'-' without spaces)", "Go's regexp package is executed from SSA for the literal lexers; reflect.ValueOf/Kind are modelled for basic kinds"},
		},
		{
			ID: "C10",
			Harnesses: []HarnessSpec{
				{Func: "ZZ_C10_H1", Pkg: "pkg/protocol/http1", Quick: map[string]int{"M": 2}, Thorough: map[string]int{"M": 3}, Covers: []string{"reached-assert", "a-connection-was-reused"}, Unwind: 5000, MaxSteps: 4000000,
					GoPolicy: map[string]string{"(*github.com/cloudwego/hertz/pkg/protocol/http1.HostClient).connsCleaner": "skip"},
					Note: "the idle-connection reaper goroutine is not run (no scheduler, no real time)"},
				{Func: "ZZ_C10_H2", Pkg: "pkg/protocol/http1", Covers: []string{"reached-assert", "waited-and-timed-out"}, Unwind: 5000,
					GoPolicy: map[string]string{"(*github.com/cloudwego/hertz/pkg/protocol/http1.HostClient).connsCleaner": "skip"},
					Note: "wait-for-free-connection path, sequentially: the waiter's timer fires when nothing else can happen; no waiter left behind; released connection reused"},
				{Func: "ZZ_C10_H3", Pkg: "pkg/protocol/http1", Quick: map[string]int{"M": 3, "SHAPES": 6}, Thorough: map[string]int{"M": 4, "SHAPES": 6}, Covers: []string{"reached-assert", "connection-reused", "no-free-connection", "stream-left-open"}, Unwind: 40000, MaxSteps: 8000000,
					GoPolicy: map[string]string{"(*github.com/cloudwego/hertz/pkg/protocol/http1.HostClient).connsCleaner": "skip"},
					Note: "response streaming: M calls x six response framings (one a 9000-byte body the peer cuts short at 8500) x body read or not x stream closed once / twice / left open (later calls then wait and time out); pool invariant after every call"},
				{Func: "ZZ_C10_H4", Pkg: "pkg/protocol/http1", Covers: []string{"reached-assert", "first-call-timed-out", "first-call-ok"}, Unwind: 5000,
					GoPolicy: map[string]string{"(*github.com/cloudwego/hertz/pkg/protocol/http1.HostClient).connsCleaner": "skip"},
					Note: "request timeout budget used up before the write or between write and read (slow peer writes: zz.SlowFor advances the modelled clock and sleeps natively): the unfinished connection is not reused"},
				{Func: "ZZ_C10_H5", Pkg: "pkg/protocol/http1", Covers: []string{"reached-assert", "retried-on-a-fresh-connection", "timed-out"}, Unwind: 5000,
					GoPolicy: map[string]string{"(*github.com/cloudwego/hertz/pkg/protocol/http1.HostClient).connsCleaner": "skip"},
					Note: "request timeout across a transparently retried attempt: returns within budget + one operation on the modelled clock (slow peer operations advance it; the native replay sleeps)"},
			},
			Assumptions: []string{"sequential histories only: M calls one after another against a scripted peer; goroutine interleavings and the waiter queue under contention are outside this technique; time is a modelled clock that advances by a fixed step per reading and by the stated amount when the scripted peer is slow (transport deadlines are not modelled, so 'returns no later than' is checked up to one operation in flight)", "fault alphabet per exchange: ok keep-alive, ok + Connection: close, close before first byte, close mid-header, close mid-body, dial error, write error, context already cancelled; MaxConns 1..2; MaxConnWaitTimeout = 0; MaxConnDuration 0 or expired"},
		},
	}
}
