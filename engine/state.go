package main

import (
	"fmt"
	"go/types"

	"golang.org/x/tools/go/ssa"
)

const pageBits = 6
const pageSize = 1 << pageBits

type page struct {
	epoch int
	objs  [pageSize]*Object
}

type pcNode struct {
	t    *Term
	prev *pcNode
	n    int
}

type frameStatus uint8

const (
	stRunning frameStatus = iota
	stPanicking
	stComplete
)

type retKind uint8

const (
	retToReg   retKind = iota // store into caller's call instruction register, advance caller pc
	retDefer                  // result discarded; continue running defers of the caller frame
	retTop                    // harness finished
	retDiscard                // result discarded; advance caller pc (used for go-inline)
	retRerun                  // result discarded; caller pc unchanged (lazy goroutine run at a blocking point)
)

type deferRec struct {
	fn   FuncVal
	args []Value
	// invoke on interface
}

type Frame struct {
	fn        *ssa.Function
	info      *fnInfo
	regs      []Value
	block     *ssa.BasicBlock
	prev      *ssa.BasicBlock
	pc        int
	defers    []deferRec
	status    frameStatus
	panicVal  Value
	ret       retKind
	result    Value // pending result while running defers at Return
	returning bool
	visits    map[int]int // block index -> visits (unwind bound)
	inRunDefers bool
}

func (f *Frame) clone() *Frame {
	n := *f
	n.regs = make([]Value, len(f.regs))
	copy(n.regs, f.regs)
	if f.defers != nil {
		n.defers = append([]deferRec(nil), f.defers...)
	}
	if f.visits != nil {
		n.visits = make(map[int]int, len(f.visits))
		for k, v := range f.visits {
			n.visits[k] = v
		}
	}
	return &n
}

type inputRec struct {
	Name  string
	Kind  string // "bytes", "int", "byte", "choose", "bool"
	Terms []*Term
	W     uint8
}

type observeRec struct {
	Name  string
	Terms []*Term
	Str   bool
}

type State struct {
	epoch   int
	pages   []*page
	nobj    int
	frames  []*Frame
	pc      *pcNode
	inputs  []inputRec
	observes []observeRec
	covers  map[string]bool
	known   []string // known-finding regions entered
	steps   int
	done    bool
	model   map[string]uint64 // last model known to satisfy pc (may be nil)
	decisions []int // fork choices taken (for partitioning)
	pools   map[int][]Value // sync.Pool object id -> LIFO list
	goDeferred []deferRec
	lazyBase   []int // frame depths at which lazily scheduled goroutines were started (innermost last)
	afterTimers []int // timer objects created by time.AfterFunc under the "@afterfunc": "fire" policy
	notes   []string
	violated bool // an assertion failed or a panic escaped on this path
	completed bool // the harness function returned normally on this path
	dom     map[*Term]*byteDom
	domOwned bool
	clock   int64
}

func (st *State) top() *Frame { return st.frames[len(st.frames)-1] }

func (e *Engine) cloneState(st *State) *State {
	e.epochSeq++
	st.epoch = e.epochSeq // parent gets a new epoch too: all pages become shared
	e.epochSeq++
	n := &State{epoch: e.epochSeq, nobj: st.nobj, pc: st.pc, steps: st.steps, model: st.model, dom: st.dom, clock: st.clock, violated: st.violated}
	st.domOwned = false
	n.pages = make([]*page, len(st.pages))
	copy(n.pages, st.pages)
	n.frames = make([]*Frame, len(st.frames))
	for i, f := range st.frames {
		n.frames[i] = f.clone()
	}
	n.inputs = append([]inputRec(nil), st.inputs...)
	n.observes = append([]observeRec(nil), st.observes...)
	if st.covers != nil {
		n.covers = map[string]bool{}
		for k, v := range st.covers {
			n.covers[k] = v
		}
	}
	n.known = append([]string(nil), st.known...)
	n.decisions = append([]int(nil), st.decisions...)
	if st.pools != nil {
		n.pools = map[int][]Value{}
		for k, v := range st.pools {
			n.pools[k] = append([]Value(nil), v...)
		}
	}
	n.goDeferred = append([]deferRec(nil), st.goDeferred...)
	n.lazyBase = append([]int(nil), st.lazyBase...)
	n.afterTimers = append([]int(nil), st.afterTimers...)
	n.notes = append([]string(nil), st.notes...)
	return n
}

func (st *State) pcList() []*Term {
	if st.pc == nil {
		return nil
	}
	out := make([]*Term, st.pc.n)
	for p := st.pc; p != nil; p = p.prev {
		out[p.n-1] = p.t
	}
	return out
}

type byteDom struct {
	bits  [4]uint64
	mixed bool
}

var fullDom = byteDom{bits: [4]uint64{^uint64(0), ^uint64(0), ^uint64(0), ^uint64(0)}}

func (d *byteDom) has(v int) bool { return d.bits[v>>6]&(1<<(uint(v)&63)) != 0 }
func (d *byteDom) empty() bool  { return d.bits[0]|d.bits[1]|d.bits[2]|d.bits[3] == 0 }

func (st *State) domOf(x *Term) byteDom {
	if d, ok := st.dom[x]; ok {
		return *d
	}
	return fullDom
}

// unaryByteVar returns the single 8-bit variable of t, if t mentions exactly one variable.
func (c *Ctx) unaryByteVar(t *Term) *Term {
	vs := c.termVars(t)
	if len(vs) == 1 && vs[0].w == 8 {
		return vs[0]
	}
	return nil
}

func (c *Ctx) termVars(t *Term) []*Term {
	if t.varsDone {
		return t.vars
	}
	set := map[*Term]bool{}
	t.Vars(set, map[*Term]bool{})
	vs := make([]*Term, 0, len(set))
	for v := range set {
		vs = append(vs, v)
	}
	t.vars = vs
	t.varsDone = true
	return vs
}

// satisfying returns the subset of d on which the unary predicate t (over x) holds.
func (c *Ctx) satisfying(t, x *Term, d byteDom) byteDom {
	var out byteDom
	out.mixed = d.mixed
	m := map[string]uint64{}
	for v := 0; v < 256; v++ {
		if !d.has(v) {
			continue
		}
		m[x.name] = uint64(v)
		if c.Eval(t, m, map[*Term]uint64{}) == 1 {
			out.bits[v>>6] |= 1 << (uint(v) & 63)
		}
	}
	return out
}

func (e *Engine) addPC(st *State, t *Term) {
	if t.IsTrue() {
		return
	}
	if !e.pure {
		e.narrow(st, t, 0)
	}
	st.addPC(t)
}

// narrow updates the byte domains from a constraint that now holds: a conjunction narrows
// through each conjunct; a unary atom intersects its variable's domain; anything else marks the
// 8-bit variables it mentions as "mixed" (they occur in a non-unary constraint).
func (e *Engine) narrow(st *State, t *Term, depth int) {
	if x := e.ctx.unaryByteVar(t); x != nil {
		nd := e.ctx.satisfying(t, x, st.domOf(x))
		st.setDom(x, &nd)
		return
	}
	if depth < 24 {
		if t.op == OpAnd {
			e.narrow(st, t.args[0], depth+1)
			e.narrow(st, t.args[1], depth+1)
			return
		}
		if t.op == OpNot && t.args[0].op == OpOr {
			in := t.args[0]
			e.narrow(st, e.ctx.Not(in.args[0]), depth+1)
			e.narrow(st, e.ctx.Not(in.args[1]), depth+1)
			return
		}
	}
	for _, v := range e.ctx.termVars(t) {
		if v.w == 8 {
			d := st.domOf(v)
			if !d.mixed {
				d.mixed = true
				st.setDom(v, &d)
			}
		}
	}
}

func (st *State) setDom(x *Term, d *byteDom) {
	if !st.domOwned {
		nd := make(map[*Term]*byteDom, len(st.dom)+1)
		for k, v := range st.dom {
			nd[k] = v
		}
		st.dom = nd
		st.domOwned = true
	}
	st.dom[x] = d
}

func (st *State) addPC(t *Term) {
	if t.IsTrue() {
		return
	}
	n := 1
	if st.pc != nil {
		n = st.pc.n + 1
	}
	st.pc = &pcNode{t: t, prev: st.pc, n: n}
}

// ---------- heap ----------

func (e *Engine) obj(st *State, id int) *Object {
	if id < 0 {
		return e.constObjs[-id]
	}
	if id == 0 {
		panic("nil object")
	}
	return st.pages[id>>pageBits].objs[id&(pageSize-1)]
}

func (e *Engine) wobj(st *State, id int) *Object {
	if id <= 0 {
		panic(engineErr{fmt.Sprintf("write to constant/nil object %d", id)})
	}
	pi := id >> pageBits
	p := st.pages[pi]
	if p.epoch != st.epoch {
		np := &page{epoch: st.epoch, objs: p.objs}
		st.pages[pi] = np
		p = np
	}
	o := p.objs[id&(pageSize-1)]
	if o.epoch != st.epoch {
		o = o.clone(st.epoch)
		p.objs[id&(pageSize-1)] = o
	}
	return o
}

func (e *Engine) newObj(st *State, o *Object) int {
	st.nobj++
	id := st.nobj
	pi := id >> pageBits
	for len(st.pages) <= pi {
		st.pages = append(st.pages, &page{epoch: st.epoch})
	}
	p := st.pages[pi]
	if p.epoch != st.epoch {
		np := &page{epoch: st.epoch, objs: p.objs}
		st.pages[pi] = np
		p = np
	}
	o.epoch = st.epoch
	p.objs[id&(pageSize-1)] = o
	return id
}

func (e *Engine) allocMem(st *State, slots []Value, label string) int {
	return e.newObj(st, &Object{kind: ObjMem, slots: slots, label: label})
}

func (e *Engine) allocType(st *State, t types.Type) int {
	return e.allocMem(st, e.zeroSlots(nil, t), "")
}

// constant (read-only, engine-wide) byte objects for string literals
func (e *Engine) constString(s string) StrVal {
	if len(s) == 0 {
		return StrVal{}
	}
	if id, ok := e.strIntern[s]; ok {
		return StrVal{obj: id, off: 0, len: len(s)}
	}
	slots := make([]Value, len(s))
	for i := 0; i < len(s); i++ {
		slots[i] = e.ctx.BV(8, uint64(s[i]))
	}
	e.constObjs = append(e.constObjs, &Object{kind: ObjMem, slots: slots, readonly: true, label: "const"})
	id := -(len(e.constObjs) - 1)
	e.strIntern[s] = id
	return StrVal{obj: id, off: 0, len: len(s)}
}

// bytesOf returns the byte terms of a string/slice value.
func (e *Engine) strBytes(st *State, s StrVal) []Value {
	if s.len == 0 {
		return nil
	}
	return e.obj(st, s.obj).slots[s.off : s.off+s.len]
}

func (e *Engine) sliceSlots(st *State, s SliceVal) []Value {
	if s.len == 0 || s.obj == 0 {
		return nil
	}
	return e.obj(st, s.obj).slots[s.off : s.off+s.len*s.esz]
}

// concreteString returns the Go string if every byte is concrete.
func (e *Engine) concreteString(st *State, s StrVal) (string, bool) {
	bs := e.strBytes(st, s)
	buf := make([]byte, len(bs))
	for i, b := range bs {
		t, ok := b.(*Term)
		if !ok || !t.IsConst() {
			return "", false
		}
		buf[i] = byte(t.val)
	}
	return string(buf), true
}

func (e *Engine) newString(st *State, bs []Value) StrVal {
	if len(bs) == 0 {
		return StrVal{}
	}
	cp := make([]Value, len(bs))
	copy(cp, bs)
	id := e.allocMem(st, cp, "str")
	return StrVal{obj: id, off: 0, len: len(bs)}
}

type engineErr struct{ msg string }

func (e engineErr) Error() string { return e.msg }
