package main

import (
	"fmt"
	"go/types"

	"golang.org/x/tools/go/ssa"
)

// Value is one of:
//   *Term        bool / integer (bit-vector)
//   FloatVal     concrete float
//   PtrVal       pointer into an object (slot granularity)
//   SliceVal     slice header
//   StrVal       string header
//   AggVal       struct/array value in a register (flattened slots)
//   TupleVal     multi-value
//   IfaceVal     interface value with concrete dynamic type
//   FuncVal      function / closure / bound method
//   MapVal, ChanVal  references
//   Opaque       poison: using it makes the path unsupported
type Value interface{}

type FloatVal struct {
	f float64
	w uint8
}

type ComplexVal struct{ c complex128 }

type PtrVal struct {
	obj int // 0 = nil
	off int
	// unsafePtr marks a pointer that went through unsafe.Pointer
}

type SliceVal struct {
	obj int // 0 = nil slice
	off int
	len int
	cap int
	esz int // slots per element
}

type StrVal struct {
	obj int
	off int
	len int
}

type AggVal struct {
	slots []Value
}

type TupleVal []Value

type IfaceVal struct {
	typ types.Type // nil = nil interface
	v   Value
}

type FuncVal struct {
	fn      *ssa.Function
	builtin *ssa.Builtin
	caps    []Value
	recv    Value // bound method receiver (for interface method values: IfaceVal)
	bound   bool
	method  *types.Func // for interface method values
	nilFn   bool
}

type MapVal struct{ obj int }
type ChanVal struct{ obj int }

type Opaque struct{ why string }

// RangeIter state for Range/Next
type IterVal struct {
	isStr bool
	str   StrVal
	pos   int
	mobj  int
	keys  []Value
}

// ---------- objects ----------

type ObjKind uint8

const (
	ObjMem ObjKind = iota
	ObjMap
	ObjChan
)

type mapEntry struct {
	k Value
	v []Value // flattened
}

type Object struct {
	kind     ObjKind
	slots    []Value
	epoch    int
	readonly bool
	label    string
	// map
	entries []mapEntry
	// chan
	closed bool
	buf    []Value
	bufcap int
	// timer channel: no scheduler and no real time, so a timer fires only when a blocking
	// select has nothing else ready (the wait "times out")
	isTimer     bool
	timerActive bool
	tickPeriod  int64 // > 0: a ticker, which stays armed after it fires and advances the clock by its period (ns)
	// time.AfterFunc with the "@afterfunc": "fire" policy: the callback and its deadline on the modelled clock
	hasAfter bool
	afterFn  FuncVal
	timerAt  int64
}

func (o *Object) clone(epoch int) *Object {
	n := &Object{kind: o.kind, epoch: epoch, label: o.label, closed: o.closed, bufcap: o.bufcap, isTimer: o.isTimer, timerActive: o.timerActive, tickPeriod: o.tickPeriod, hasAfter: o.hasAfter, afterFn: o.afterFn, timerAt: o.timerAt}
	if o.slots != nil {
		n.slots = make([]Value, len(o.slots))
		copy(n.slots, o.slots)
	}
	if o.entries != nil {
		n.entries = make([]mapEntry, len(o.entries))
		copy(n.entries, o.entries)
	}
	if o.buf != nil {
		n.buf = append([]Value(nil), o.buf...)
	}
	return n
}

// ---------- type layout ----------

type layoutCache struct {
	size map[types.Type]int
}

func (e *Engine) slotsOf(t types.Type) int {
	if n, ok := e.layout[t]; ok {
		return n
	}
	var n int
	switch u := t.Underlying().(type) {
	case *types.Struct:
		for i := 0; i < u.NumFields(); i++ {
			n += e.slotsOf(u.Field(i).Type())
		}
	case *types.Array:
		n = int(u.Len()) * e.slotsOf(u.Elem())
	case *types.Tuple:
		n = 1
	default:
		n = 1
	}
	e.layout[t] = n
	return n
}

func (e *Engine) fieldOffset(st *types.Struct, idx int) int {
	off := 0
	for i := 0; i < idx; i++ {
		off += e.slotsOf(st.Field(i).Type())
	}
	return off
}

func isAgg(t types.Type) bool {
	switch t.Underlying().(type) {
	case *types.Struct, *types.Array:
		return true
	}
	return false
}

func basicWidth(b *types.Basic) (w uint8, signed bool, ok bool) {
	switch b.Kind() {
	case types.Bool, types.UntypedBool:
		return 0, false, true
	case types.Int8:
		return 8, true, true
	case types.Int16:
		return 16, true, true
	case types.Int32, types.UntypedRune:
		return 32, true, true
	case types.Int, types.Int64, types.UntypedInt:
		return 64, true, true
	case types.Uint8:
		return 8, false, true
	case types.Uint16:
		return 16, false, true
	case types.Uint32:
		return 32, false, true
	case types.Uint, types.Uint64, types.Uintptr:
		return 64, false, true
	}
	return 0, false, false
}

func intType(t types.Type) (w uint8, signed bool, ok bool) {
	b, isb := t.Underlying().(*types.Basic)
	if !isb {
		return 0, false, false
	}
	return basicWidth(b)
}

func isFloat(t types.Type) (uint8, bool) {
	b, ok := t.Underlying().(*types.Basic)
	if !ok {
		return 0, false
	}
	switch b.Kind() {
	case types.Float32:
		return 32, true
	case types.Float64, types.UntypedFloat:
		return 64, true
	}
	return 0, false
}

func isString(t types.Type) bool {
	b, ok := t.Underlying().(*types.Basic)
	return ok && b.Info()&types.IsString != 0
}

// zeroSlots appends the zero value of t (flattened) to dst.
func (e *Engine) zeroSlots(dst []Value, t types.Type) []Value {
	switch u := t.Underlying().(type) {
	case *types.Struct:
		for i := 0; i < u.NumFields(); i++ {
			dst = e.zeroSlots(dst, u.Field(i).Type())
		}
		return dst
	case *types.Array:
		n := int(u.Len())
		if n == 0 {
			return dst
		}
		first := len(dst)
		dst = e.zeroSlots(dst, u.Elem())
		esz := len(dst) - first
		for i := 1; i < n; i++ {
			dst = append(dst, dst[first:first+esz]...)
		}
		return dst
	}
	return append(dst, e.zeroLeaf(t))
}

func (e *Engine) zeroLeaf(t types.Type) Value {
	switch u := t.Underlying().(type) {
	case *types.Basic:
		if w, _, ok := basicWidth(u); ok {
			if w == 0 {
				return e.ctx.False
			}
			return e.ctx.BV(w, 0)
		}
		switch u.Kind() {
		case types.Float32:
			return FloatVal{0, 32}
		case types.Float64, types.UntypedFloat:
			return FloatVal{0, 64}
		case types.String, types.UntypedString:
			return StrVal{}
		case types.UnsafePointer:
			return PtrVal{}
		case types.Complex128, types.Complex64:
			return ComplexVal{}
		case types.UntypedNil:
			return PtrVal{}
		}
	case *types.Pointer:
		return PtrVal{}
	case *types.Slice:
		return SliceVal{esz: e.slotsOf(u.Elem())}
	case *types.Map:
		return MapVal{}
	case *types.Chan:
		return ChanVal{}
	case *types.Signature:
		return FuncVal{nilFn: true}
	case *types.Interface:
		return IfaceVal{}
	case *types.Tuple:
		return TupleVal(nil)
	}
	panic(fmt.Sprintf("zeroLeaf: unhandled type %s (%T)", t, t.Underlying()))
}

func (e *Engine) zeroValue(t types.Type) Value {
	if isAgg(t) {
		return AggVal{e.zeroSlots(nil, t)}
	}
	return e.zeroLeaf(t)
}

// flatten appends the slots of v (a value of type t) to dst.
func flatten(dst []Value, v Value) []Value {
	if a, ok := v.(AggVal); ok {
		return append(dst, a.slots...)
	}
	return append(dst, v)
}

func (e *Engine) unflatten(slots []Value, t types.Type) Value {
	if isAgg(t) {
		cp := make([]Value, len(slots))
		copy(cp, slots)
		return AggVal{cp}
	}
	return slots[0]
}
