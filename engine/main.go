package main

import (
	"encoding/json"
	"flag"
	"fmt"
	"os"
	"path/filepath"
	"runtime"
	"sort"
	"strconv"
	"strings"
	"time"
)

func usage() {
	fmt.Fprintln(os.Stderr, "usage: symgo check <ID> [--tier quick|thorough] | symgo replay <file> | symgo run <pkg> <func> | symgo list")
	os.Exit(2)
}

// outDir: where evidence and replay files go (default: the verif directory)
var outDir string

func outBase() string {
	if outDir != "" {
		return outDir
	}
	return verifDir
}

func main() {
	if len(os.Args) < 2 {
		usage()
	}
	if v := os.Getenv("VERIF_DIR"); v != "" {
		verifDir = v
	}
	if v := os.Getenv("SYMGO_REPO"); v != "" {
		repoDir = v
	}
	if v := os.Getenv("SYMGO_OUT"); v != "" {
		outDir = v
	}
	switch os.Args[1] {
	case "check":
		os.Exit(cmdCheck(os.Args[2:]))
	case "replay":
		os.Exit(cmdReplay(os.Args[2:]))
	case "run":
		os.Exit(cmdRun(os.Args[2:]))
	case "exec":
		os.Exit(cmdExec(os.Args[2:]))
	case "list":
		for _, p := range allProps() {
			fmt.Println(p.ID, len(p.Harnesses))
		}
	default:
		usage()
	}
}

func propByID(id string) *PropSpec {
	for _, p := range allProps() {
		if p.ID == id {
			pp := p
			return &pp
		}
	}
	return nil
}

func cmdRun(args []string) int {
	fs := flag.NewFlagSet("run", flag.ExitOnError)
	trace := fs.Bool("trace", false, "trace unsupported/panics")
	workers := fs.Int("j", 1, "workers")
	unwind := fs.Int("unwind", 200, "unwind bound")
	budget := fs.Int("budget", 120, "wall-clock budget in seconds")
	var params, gopol multiFlag
	fs.Var(&params, "p", "param name=value")
	fs.Var(&gopol, "go", "go-statement policy: function=skip|inline")
	fs.Parse(args)
	if fs.NArg() < 2 {
		usage()
	}
	pkg, fn := fs.Arg(0), fs.Arg(1)
	deadline = time.Now().Add(time.Duration(*budget) * time.Second)
	l, err := loadProgram([]string{"./" + pkg})
	if err != nil {
		fmt.Fprintln(os.Stderr, err)
		return 2
	}
	spec := HarnessSpec{Func: fn, Pkg: pkg, Unwind: *unwind, Quick: map[string]int{}, GoPolicy: map[string]string{}}
	for _, p := range params {
		kv := strings.SplitN(p, "=", 2)
		n, _ := strconv.Atoi(kv[1])
		spec.Quick[kv[0]] = n
	}
	for _, p := range gopol {
		kv := strings.SplitN(p, "=", 2)
		spec.GoPolicy[kv[0]] = kv[1]
	}
	res, err := runHarness(l, spec, "quick", loadKnown(), *workers, *trace)
	if err != nil {
		fmt.Fprintln(os.Stderr, err)
		return 2
	}
	printResult(res)
	dumpForkSites()
	for i, v := range res.Violations {
		rf := buildReplay("X", spec, res.Params, v)
		b, _ := json.MarshalIndent(rf, "", " ")
		p := filepath.Join(os.TempDir(), fmt.Sprintf("zzrun-%s-%d.json", fn, i))
		os.WriteFile(p, b, 0o644)
		ok, out, err := nativeReplay(l, rf, p)
		fmt.Printf("violation %s %s site=%s known=%q replay=%s reproduced=%v err=%v\n", v.Kind, v.Name, v.Site, v.Known, p, ok, err)
		if !ok {
			fmt.Println(tail(out, 30))
		}
	}
	return 0
}

type multiFlag []string

func (m *multiFlag) String() string     { return strings.Join(*m, ",") }
func (m *multiFlag) Set(s string) error { *m = append(*m, s); return nil }

func tail(s string, n int) string {
	lines := strings.Split(s, "\n")
	if len(lines) > n {
		lines = lines[len(lines)-n:]
	}
	return strings.Join(lines, "\n")
}

func printResult(res *HarnessResult) {
	s := res.Stats
	fmt.Printf("harness %s: paths=%d forks=%d instrs=%d queries=%d (sat %d unsat %d unknown %d) solver=%.2fs wall=%.2fs asserts=%d infeasible=%d\n",
		res.Spec.Func, s.Paths, s.Forks, s.Instrs, res.SolverQ, res.SolverSat, res.SolverUnsat, res.SolverUnknown,
		res.SolverTime.Seconds(), res.Wall.Seconds(), s.AssertsChecked, s.Infeasible)
	keys := func(m map[string]int) []string {
		var ks []string
		for k := range m {
			ks = append(ks, k)
		}
		sort.Strings(ks)
		return ks
	}
	for _, k := range keys(s.Covers) {
		fmt.Printf("  cover %-40s %d\n", k, s.Covers[k])
	}
	for _, k := range keys(s.Unsupported) {
		fmt.Printf("  UNSUPPORTED %s: %d\n", k, s.Unsupported[k])
	}
	for _, k := range keys(s.UnwindFail) {
		fmt.Printf("  UNWIND-FAIL %s: %d\n", k, s.UnwindFail[k])
	}
	for _, er := range res.SolverErrors {
		fmt.Printf("  SOLVER-ERROR %s\n", er)
	}
}

func cmdReplay(args []string) int {
	if len(args) < 1 {
		usage()
	}
	b, err := os.ReadFile(args[0])
	if err != nil {
		fmt.Fprintln(os.Stderr, err)
		return 2
	}
	var rf ReplayFile
	if err := json.Unmarshal(b, &rf); err != nil {
		fmt.Fprintln(os.Stderr, err)
		return 2
	}
	l, err := loadProgram([]string{"./" + rf.Pkg})
	if err != nil {
		fmt.Fprintln(os.Stderr, err)
		return 2
	}
	abs, _ := filepath.Abs(args[0])
	ok, out, err := nativeReplay(l, &rf, abs)
	fmt.Println(tail(out, 40))
	if err != nil {
		fmt.Fprintln(os.Stderr, err)
		return 2
	}
	if ok {
		fmt.Printf("REPRODUCED property=%s harness=%s %s %s\n", rf.Property, rf.Harness, rf.Kind, rf.Name)
		return 1
	}
	fmt.Println("not reproduced")
	return 0
}

func cmdCheck(args []string) int {
	if len(args) < 1 {
		usage()
	}
	id := args[0]
	fs := flag.NewFlagSet("check", flag.ExitOnError)
	tier := fs.String("tier", "", "quick|thorough")
	workers := fs.Int("j", 0, "workers")
	trace := fs.Bool("trace", false, "trace")
	only := fs.String("only", "", "run only this harness")
	budget := fs.Int("budget", 0, "wall-clock budget in seconds per harness (0 = tier default)")
	fs.Parse(args[1:])
	if *tier == "" {
		*tier = os.Getenv("VERIF_TIER")
	}
	if *tier == "" {
		*tier = "quick"
	}
	if *workers == 0 {
		*workers = runtime.NumCPU()
	}
	seed, _ := strconv.Atoi(os.Getenv("VERIF_SEED"))
	prop := propByID(id)
	if prop == nil {
		fmt.Fprintf(os.Stderr, "unknown property %s\n", id)
		return 2
	}
	t0 := time.Now()
	known := loadKnown()
	pkgSet := map[string]bool{}
	var pats []string
	for _, h := range prop.Harnesses {
		if !pkgSet[h.Pkg] {
			pkgSet[h.Pkg] = true
			pats = append(pats, "./"+h.Pkg)
		}
	}
	l, err := loadProgram(pats)
	if err != nil {
		fmt.Fprintln(os.Stderr, "load:", err)
		return 2
	}
	loadT := time.Since(t0)
	inconclusive := []string{}
	nviol := 0
	var results []*HarnessResult
	knownSeen := map[string]bool{}
	os.MkdirAll(filepath.Join(outBase(), "replays"), 0o755)
	for _, h := range prop.Harnesses {
		if *only != "" && h.Func != *only {
			continue
		}
		if h.ThoroughOnly && *tier != "thorough" {
			continue
		}
		b := *budget
		if b == 0 {
			b = 900
			if *tier == "thorough" {
				b = 3600
			}
		}
		deadline = time.Now().Add(time.Duration(b) * time.Second)
		res, err := runHarness(l, h, *tier, known, *workers, *trace)
		if err != nil {
			fmt.Fprintln(os.Stderr, "harness:", err)
			return 2
		}
		results = append(results, res)
		printResult(res)
		if len(res.Stats.Unsupported) > 0 {
			inconclusive = append(inconclusive, h.Func+": unsupported paths")
		}
		if len(res.Stats.UnwindFail) > 0 {
			inconclusive = append(inconclusive, h.Func+": unwind/step bound exceeded")
		}
		if len(res.SolverErrors) > 0 || res.SolverUnknown > 0 {
			inconclusive = append(inconclusive, h.Func+": solver errors/unknown")
		}
		if res.Stats.Paths == 0 {
			inconclusive = append(inconclusive, h.Func+": no path completed")
		}
		for _, c := range h.Covers {
			if res.Stats.Covers[c] == 0 {
				fmt.Printf("UNREACHED cover=%s harness=%s\n", c, h.Func)
				inconclusive = append(inconclusive, h.Func+": cover point "+c+" unreached")
			}
		}
		for i, v := range res.Violations {
			rf := buildReplay(id, h, res.Params, v)
			b, _ := json.MarshalIndent(rf, "", " ")
			p := filepath.Join(outBase(), "replays", fmt.Sprintf("%s-%s-%d.json", id, h.Func, i))
			os.WriteFile(p, b, 0o644)
			ok, out, err := nativeReplay(l, rf, p)
			if err != nil || !ok {
				fmt.Printf("UNCONFIRMED counterexample harness=%s %s %s site=%s replay=%s err=%v\n", h.Func, v.Kind, v.Name, v.Site, p, err)
				fmt.Println(tail(out, 25))
				inconclusive = append(inconclusive, h.Func+": counterexample did not reproduce natively ("+v.Name+")")
				continue
			}
			v.Confirmed = true
			v.Replay = p
			if v.Known != "" {
				if !knownSeen[v.Known] {
					knownSeen[v.Known] = true
					fmt.Printf("KNOWN-FINDING: property=%s %s [%s; replay=%s]\n", id, known[v.Known].What, v.Known, p)
				}
				continue
			}
			nviol++
			fmt.Printf("VIOLATION property=%s replay=%s\n", id, p)
			fmt.Printf("  harness=%s %s %s site=%s %s\n", h.Func, v.Kind, v.Name, v.Site, v.Detail)
		}
	}
	// native validation of sampled passing paths (translator validation), one go test per package
	byPkg := map[string][]ValidationCase{}
	for _, r := range results {
		byPkg[r.Spec.Pkg] = append(byPkg[r.Spec.Pkg], r.Cases...)
	}
	validatedTotal := 0
	for pkgRel, cases := range byPkg {
		n, mism, err := nativeValidate(l, pkgRel, cases)
		if err != nil {
			inconclusive = append(inconclusive, "native validation failed to run for "+pkgRel+": "+err.Error())
			continue
		}
		validatedTotal += n
		for _, mm := range mism {
			fmt.Printf("VALIDATION-MISMATCH %s\n", mm)
			inconclusive = append(inconclusive, "native validation mismatch in "+pkgRel)
		}
	}
	if len(results) > 0 {
		results[0].Validated += validatedTotal
	}
	fmt.Printf("native validation: %d sampled passing paths replayed natively and agreed\n", validatedTotal)
	// known findings that no longer reproduce are reported (not an error: they may have been fixed)
	for kid, k := range known {
		if k.Property == id && k.Status != "fixed" && !knownSeen[kid] && *only == "" {
			applicable := false
			for _, h := range prop.Harnesses {
				if h.Func == k.Harness && !(h.ThoroughOnly && *tier != "thorough") {
					applicable = true
				}
			}
			if applicable {
				fmt.Printf("NOTE: known finding %s did not reproduce on this tree\n", kid)
			}
		}
	}
	wall := time.Since(t0)
	writeEvidence(id, *tier, seed, prop, results, nviol, wall, loadT, inconclusive)
	if nviol > 0 {
		return 1
	}
	if len(inconclusive) > 0 {
		fmt.Printf("INCONCLUSIVE property=%s: %s\n", id, strings.Join(inconclusive, "; "))
		return 2
	}
	fmt.Printf("OK property=%s tier=%s wall=%.1fs\n", id, *tier, wall.Seconds())
	return 0
}

func writeEvidence(id, tier string, seed int, prop *PropSpec, results []*HarnessResult, nviol int, wall, loadT time.Duration, inconclusive []string) {
	cov := map[string]interface{}{}
	states, trans := 0, 0
	queries := 0
	var solverT float64
	var samples []interface{}
	harnessInfo := []interface{}{}
	funcs := map[string]int{}
	stubs := map[string]int{}
	covers := map[string]int{}
	validated := 0
	kf := []string{}
	for _, r := range results {
		states += r.Stats.Paths
		trans += r.Stats.Forks
		queries += r.SolverQ
		solverT += r.SolverTime.Seconds()
		for _, s := range r.Samples {
			if len(samples) < 12 {
				samples = append(samples, map[string]interface{}{"harness": r.Spec.Func, "inputs": s})
			}
		}
		for k, v := range r.Stats.Funcs {
			funcs[k] += v
		}
		for k, v := range r.Stats.Stubs {
			stubs[k] += v
		}
		for k, v := range r.Stats.Covers {
			covers[r.Spec.Func+"/"+k] += v
		}
		validated += r.Validated
		for _, v := range r.Violations {
			if v.Confirmed {
				validated++
			}
			if v.Known != "" && v.Confirmed {
				kf = append(kf, v.Known)
			}
		}
		harnessInfo = append(harnessInfo, map[string]interface{}{
			"harness": r.Spec.Func, "package": r.Spec.Pkg, "bounds": r.Params, "unwind": r.Spec.Unwind,
			"paths": r.Stats.Paths, "forks": r.Stats.Forks, "instructions": r.Stats.Instrs,
			"queries": r.SolverQ, "sat": r.SolverSat, "unsat": r.SolverUnsat, "unknown": r.SolverUnknown, "decided_by_second_solver_after_primary_unknown": r.Rescued,
			"assert_queries": r.Stats.AssertQueries, "assert_queries_cross_checked_z3_5_1": r.CrossChecked, "cross_solver_time_s": r.SolverTime2.Seconds(), "solver_time_s": r.SolverTime.Seconds(), "wall_s": r.Wall.Seconds(),
			"infeasible_pruned": r.Stats.Infeasible, "note": r.Spec.Note,
			"unsupported": r.Stats.Unsupported, "unwind_failures": r.Stats.UnwindFail,
		})
	}
	if len(samples) == 0 {
		samples = append(samples, "no path sample recorded")
	}
	if states == 0 {
		states = 0
	}
	cov["states"] = states
	cov["transitions"] = trans
	cov["traces_validated_against_impl"] = validated
	cov["samples"] = samples
	cov["exhaustive"] = len(inconclusive) == 0
	cov["explanation"] = "states = symbolic paths completed (each covers every input value satisfying its path condition); transitions = solver-decided fork points; all assertion/panic/branch verdicts by z3 over SSA-derived terms regenerated from /repo on this run"
	cov["harnesses"] = harnessInfo
	cov["functions_encoded"] = topFuncs(funcs, 400)
	cov["stubs_hit"] = stubs
	cov["cover_points"] = covers
	cov["queries"] = queries
	cov["solver_time_s"] = solverT
	cov["solver"] = "z3 4.8.12 (z3 -in, push/pop incremental); assertion verdicts re-asked of z3 5.1.0 (z3-new -in)"
	cov["load_time_s"] = loadT.Seconds()
	cov["known_findings_reproduced"] = kf
	cov["inconclusive"] = inconclusive
	ev := Evidence{PropertyID: id, Tier: tier, Seed: seed, Level: "model_checking", Coverage: cov,
		Assumptions: prop.Assumptions, WallS: wall.Seconds(), Violations: nviol}
	if ev.Assumptions == nil {
		ev.Assumptions = []string{}
	}
	b, _ := json.MarshalIndent(ev, "", " ")
	os.MkdirAll(filepath.Join(outBase(), "evidence"), 0o755)
	os.WriteFile(filepath.Join(outBase(), "evidence", id+".json"), b, 0o644)
}

// cmdExec runs a harness inside the engine on the concrete inputs of a replay file.
func cmdExec(args []string) int {
	if len(args) < 1 {
		usage()
	}
	b, err := os.ReadFile(args[0])
	if err != nil {
		fmt.Fprintln(os.Stderr, err)
		return 2
	}
	var rf ReplayFile
	if err := json.Unmarshal(b, &rf); err != nil {
		fmt.Fprintln(os.Stderr, err)
		return 2
	}
	l, err := loadProgram([]string{"./" + rf.Pkg})
	if err != nil {
		fmt.Fprintln(os.Stderr, err)
		return 2
	}
	spec := HarnessSpec{Func: rf.Harness, Pkg: rf.Pkg, Quick: rf.Params}
	if p := propByID(rf.Property); p != nil {
		for _, h := range p.Harnesses {
			if h.Func == rf.Harness {
				spec.GoPolicy, spec.Unwind, spec.MaxSteps = h.GoPolicy, h.Unwind, h.MaxSteps
			}
		}
	}
	w, err := newWorker(l, spec, rf.Params, loadKnown(), len(args) > 1)
	if err != nil {
		fmt.Fprintln(os.Stderr, err)
		return 2
	}
	w.e.concrete = rf.Inputs
	if w.e.concrete == nil {
		w.e.concrete = []ReplayInput{}
	}
	fmt.Printf("ZZ-REPLAY-START %s (engine, concrete)\n", rf.Harness)
	w.run(nil, 0)
	for _, v := range w.e.violations {
		fmt.Printf("engine violation: %s %s site=%s\n", v.Kind, v.Name, v.Site)
	}
	res := &HarnessResult{Spec: spec, Stats: w.e.stats}
	printResult(res)
	return 0
}
