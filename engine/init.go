package main

import (
	"fmt"
	"go/types"
	"os"
	"runtime"
	"strings"

	"golang.org/x/tools/go/ssa"
)

const globalLimit = 1 << 14 // object ids below this are reserved for package-level variables

var initAllow = map[string]bool{
	"errors": true, "io": true, "bytes": true, "strings": true, "strconv": true, "unicode/utf8": true,
	"sort": true, "math": true, "math/bits": true, "path": true, "bufio": true, "context": true,
	"sync": true, "sync/atomic": true, "unicode": true, "io/fs": false,
	"regexp": true, "regexp/syntax": true, "slices": true,
	"net/textproto": true, "mime/multipart": true, "mime": true,
	"github.com/bytedance/gopkg/lang/mcache": false,
}

func allowInit(path string) bool {
	if v, ok := initAllow[path]; ok {
		return v
	}
	if strings.HasPrefix(path, modPath+"/") || path == modPath {
		return true
	}
	if strings.HasPrefix(path, "github.com/valyala/bytebufferpool") || strings.HasPrefix(path, "github.com/cloudwego/hertz") {
		return true
	}
	return false
}

var emptyPage = &page{epoch: -1}

func (e *Engine) newState() *State {
	e.epochSeq++
	st := &State{epoch: e.epochSeq, nobj: globalLimit}
	st.pages = make([]*page, globalLimit>>pageBits+1)
	for i := range st.pages {
		st.pages[i] = emptyPage
	}
	return st
}

func (e *Engine) globalObj(st *State, g *ssa.Global) int {
	id, ok := e.globals[g]
	if !ok {
		id = len(e.globals) + 1
		if id >= globalLimit {
			panic(engineErr{"too many globals"})
		}
		e.globals[g] = id
	}
	pi := id >> pageBits
	if st.pages[pi].objs[id&(pageSize-1)] == nil {
		t := g.Type().(*types.Pointer).Elem()
		var slots []Value
		if g.Pkg != nil && !allowInit(g.Pkg.Pkg.Path()) && !strings.HasPrefix(g.Name(), "init$guard") {
			n := e.slotsOf(t)
			slots = make([]Value, n)
			op := Opaque{"uninitialised global " + g.String()}
			for i := range slots {
				slots[i] = op
			}
		} else {
			slots = e.zeroSlots(nil, t)
		}
		p := st.pages[pi]
		if p.epoch != st.epoch {
			np := &page{epoch: st.epoch, objs: p.objs}
			st.pages[pi] = np
			p = np
		}
		p.objs[id&(pageSize-1)] = &Object{kind: ObjMem, slots: slots, epoch: st.epoch, label: g.String()}
	}
	return id
}

// runInit executes the package initialiser of pkg (and, transitively, of allowed imports)
// concretely and tolerantly: an instruction the engine cannot execute poisons its result.
func (e *Engine) runInit(st *State, pkg *ssa.Package) {
	fn := pkg.Func("init")
	if fn == nil {
		return
	}
	e.initMode = true
	defer func() { e.initMode = false }()
	e.pushFrame(st, fn, nil, nil, retTop)
	for !st.done {
		e.initStep(st)
	}
	st.done = false
	st.steps = 0
	st.notes = nil
}

func (e *Engine) initStep(st *State) {
	depth := len(st.frames)
	f := st.top()
	ins := f.block.Instrs[f.pc]
	defer func() {
		r := recover()
		if r == nil {
			return
		}
		why := ""
		switch x := r.(type) {
		case goPanicSignal:
			// a Go-level panic during init: abandon the panicking frames
			why = "go panic in init"
			for len(st.frames) > 0 && (st.top().status == stPanicking) {
				st.frames = st.frames[:len(st.frames)-1]
			}
			if len(st.frames) == 0 {
				st.done = true
				return
			}
			st.done = false
			e.poison(st, st.top(), why)
			return
		case pathEnd:
			why = x.why
		case engineErr:
			why = x.msg
		case forkedSignal:
			why = "fork in init"
		case runtime.Error:
			why = "internal: " + x.Error()
		default:
			panic(r)
		}
		st.done = false
		e.initPoisoned[why]++
		if os.Getenv("SYMGO_TRACE_INIT") != "" {
			fmt.Fprintf(os.Stderr, "init poison: %s at %s\n", why, f.fn)
		}
		// drop frames pushed by the failing instruction
		if len(st.frames) > depth {
			st.frames = st.frames[:depth]
		}
		if len(st.frames) < depth {
			// frame already popped; continue in caller
			return
		}
		_ = ins
		e.poison(st, f, why)
	}()
	e.step(st)
}

// poison gives the current instruction of f an Opaque result and moves on.
func (e *Engine) poison(st *State, f *Frame, why string) {
	ins := f.block.Instrs[f.pc]
	switch ins.(type) {
	case *ssa.If, *ssa.Jump, *ssa.Return, *ssa.Panic:
		// cannot continue this function: return poison to the caller
		res := fn0results(f.fn, Opaque{why})
		st.frames = st.frames[:len(st.frames)-1]
		if f.ret == retTop || len(st.frames) == 0 {
			st.done = true
			return
		}
		c := st.top()
		cins := c.block.Instrs[c.pc]
		if v, ok := cins.(ssa.Value); ok {
			e.set(c, v, res)
		}
		c.pc++
		return
	}
	if v, ok := ins.(ssa.Value); ok {
		var val Value = Opaque{why}
		if tup, ok := v.Type().(*types.Tuple); ok {
			t := make(TupleVal, tup.Len())
			for i := range t {
				t[i] = Opaque{why}
			}
			val = t
		}
		e.set(f, v, val)
	}
	f.pc++
}

func fn0results(fn *ssa.Function, op Opaque) Value {
	n := fn.Signature.Results().Len()
	switch n {
	case 0:
		return nil
	case 1:
		return op
	}
	t := make(TupleVal, n)
	for i := range t {
		t[i] = op
	}
	return t
}
