package main

// Type-directed havoc and state comparison (intrinsics zz.Havoc / zz.SameState).
// The walk order and the set of visited leaves must be identical to the native implementation in
// harness/zzverif/havoc.go (reflect based), because the replay feeds values in walk order.

import (
	"fmt"
	"go/types"
	"strings"
)

func skipHavocType(t types.Type) bool {
	if n, ok := t.(*types.Named); ok && n.Obj().Pkg() != nil {
		switch n.Obj().Pkg().Path() {
		case "sync", "sync/atomic":
			return true
		}
		if n.Obj().Name() == "NoCopy" || n.Obj().Name() == "noCopy" {
			return true
		}
	}
	return false
}

type havocCtx struct {
	e     *Engine
	st    *State
	name  string
	terms []*Term
	seen  map[int]bool
}

func (h *havocCtx) fresh(path string, w uint8) *Term {
	t := h.e.ctx.Var(fmt.Sprintf("%s.%d:%s", h.name, len(h.terms), path), w)
	h.terms = append(h.terms, t)
	return t
}

// walk havocs the value of type t stored at (obj, off).
func (h *havocCtx) walk(obj, off int, t types.Type, path string, depth int) {
	e, st := h.e, h.st
	if skipHavocType(t) {
		return
	}
	switch u := t.Underlying().(type) {
	case *types.Basic:
		w, _, ok := basicWidth(u)
		if ok {
			v := h.fresh(path, w)
			e.wobj(st, obj).slots[off] = v
			return
		}
		if u.Info()&types.IsString != 0 {
			b := h.fresh(path, 8)
			id := e.allocMem(st, []Value{b}, "havoc-str")
			e.wobj(st, obj).slots[off] = StrVal{obj: id, off: 0, len: 1}
		}
	case *types.Struct:
		for i := 0; i < u.NumFields(); i++ {
			h.walk(obj, off+e.fieldOffset(u, i), u.Field(i).Type(), path+"."+u.Field(i).Name(), depth)
		}
	case *types.Array:
		esz := e.slotsOf(u.Elem())
		for i := 0; i < int(u.Len()) && i < 8; i++ {
			h.walk(obj, off+i*esz, u.Elem(), fmt.Sprintf("%s[%d]", path, i), depth)
		}
	case *types.Slice:
		if eb, ok := u.Elem().Underlying().(*types.Basic); ok && eb.Kind() == types.Uint8 {
			b := h.fresh(path, 8)
			z := e.ctx.BV(8, 0)
			id := e.allocMem(st, []Value{b, z, z, z}, "havoc-bytes")
			e.wobj(st, obj).slots[off] = SliceVal{obj: id, off: 0, len: 1, cap: 4, esz: 1}
			return
		}
		if _, ok := u.Elem().Underlying().(*types.Struct); ok && depth < 4 {
			esz := e.slotsOf(u.Elem())
			slots := e.zeroSlots(nil, u.Elem())
			slots = append(slots, e.zeroSlots(nil, u.Elem())...)
			id := e.allocMem(st, slots, "havoc-slice")
			e.wobj(st, obj).slots[off] = SliceVal{obj: id, off: 0, len: 1, cap: 2, esz: esz}
			h.walk(id, 0, u.Elem(), path+"[0]", depth+1)
		}
	case *types.Pointer:
		p, ok := e.obj(st, obj).slots[off].(PtrVal)
		if !ok || p.obj <= 0 || depth >= 4 || h.seen[p.obj] {
			return
		}
		if _, isStruct := u.Elem().Underlying().(*types.Struct); !isStruct {
			return
		}
		h.seen[p.obj] = true
		h.walk(p.obj, p.off, u.Elem(), path+"*", depth+1)
	}
}

type cmpCtx struct {
	e      *Engine
	st     *State
	ignore map[string]bool
	acc    *Term
	diffs  []string
	seen   map[[2]int]bool
}

func (c *cmpCtx) and(t *Term, path string) {
	if !t.IsTrue() {
		c.diffs = append(c.diffs, path)
	}
	c.acc = c.e.ctx.And(c.acc, t)
}

func (c *cmpCtx) slot(obj, off int) Value {
	if obj == 0 {
		return nil
	}
	return c.e.obj(c.st, obj).slots[off]
}

// zeroObj allocates a zero value of t (used to compare a lazily allocated pointee with "absent").
func (c *cmpCtx) zeroObj(t types.Type) int {
	return c.e.allocType(c.st, t)
}

func (c *cmpCtx) walk(ao, aoff, bo, boff int, t types.Type, path string, depth int) {
	e := c.e
	if c.ignore[strings.TrimPrefix(path, ".")] || skipHavocType(t) {
		return
	}
	cx := e.ctx
	switch u := t.Underlying().(type) {
	case *types.Basic:
		av, bv := c.slot(ao, aoff), c.slot(bo, boff)
		switch x := av.(type) {
		case *Term:
			c.and(cx.Eq(x, bv.(*Term)), path)
		case StrVal:
			c.and(e.equalValues(c.st, x, bv, t), path)
		case FloatVal:
			c.and(cx.Bool(x.f == bv.(FloatVal).f), path)
		}
	case *types.Struct:
		for i := 0; i < u.NumFields(); i++ {
			fo := e.fieldOffset(u, i)
			c.walk(ao, aoff+fo, bo, boff+fo, u.Field(i).Type(), path+"."+u.Field(i).Name(), depth)
		}
	case *types.Array:
		esz := e.slotsOf(u.Elem())
		for i := 0; i < int(u.Len()) && i < 8; i++ {
			c.walk(ao, aoff+i*esz, bo, boff+i*esz, u.Elem(), fmt.Sprintf("%s[%d]", path, i), depth)
		}
	case *types.Slice:
		as, bs := c.slot(ao, aoff).(SliceVal), c.slot(bo, boff).(SliceVal)
		if as.len != bs.len {
			c.and(cx.False, path+"(len)")
			return
		}
		if as.len == 0 {
			return
		}
		switch eu := u.Elem().Underlying().(type) {
		case *types.Basic:
			for i := 0; i < as.len; i++ {
				x, y := e.obj(c.st, as.obj).slots[as.off+i], e.obj(c.st, bs.obj).slots[bs.off+i]
				c.and(e.equalValues(c.st, x, y, eu), fmt.Sprintf("%s[%d]", path, i))
			}
		case *types.Struct:
			if depth < 4 {
				for i := 0; i < as.len; i++ {
					c.walk(as.obj, as.off+i*as.esz, bs.obj, bs.off+i*bs.esz, u.Elem(), fmt.Sprintf("%s[%d]", path, i), depth+1)
				}
			}
		}
	case *types.Pointer:
		ap, _ := c.slot(ao, aoff).(PtrVal)
		bp, _ := c.slot(bo, boff).(PtrVal)
		if _, isStruct := u.Elem().Underlying().(*types.Struct); !isStruct {
			c.and(cx.Bool((ap.obj == 0) == (bp.obj == 0)), path+"(nil)")
			return
		}
		if ap.obj == 0 && bp.obj == 0 {
			return
		}
		if depth >= 4 {
			return
		}
		key := [2]int{ap.obj, bp.obj}
		if c.seen[key] {
			return
		}
		c.seen[key] = true
		// a lazily allocated pointee that is still in its zero state equals an absent one
		if ap.obj == 0 {
			ap = PtrVal{obj: c.zeroObj(u.Elem())}
		}
		if bp.obj == 0 {
			bp = PtrVal{obj: c.zeroObj(u.Elem())}
		}
		c.walk(ap.obj, ap.off, bp.obj, bp.off, u.Elem(), path+"*", depth+1)
	case *types.Interface:
		ai, _ := c.slot(ao, aoff).(IfaceVal)
		bi, _ := c.slot(bo, boff).(IfaceVal)
		c.and(cx.Bool((ai.typ == nil) == (bi.typ == nil)), path+"(nil)")
	case *types.Signature:
		af, _ := c.slot(ao, aoff).(FuncVal)
		bf, _ := c.slot(bo, boff).(FuncVal)
		c.and(cx.Bool(af.nilFn == bf.nilFn), path+"(nil)")
	case *types.Map:
		am, _ := c.slot(ao, aoff).(MapVal)
		bm, _ := c.slot(bo, boff).(MapVal)
		la, lb := 0, 0
		if am.obj != 0 {
			la = len(e.obj(c.st, am.obj).entries)
		}
		if bm.obj != 0 {
			lb = len(e.obj(c.st, bm.obj).entries)
		}
		c.and(cx.Bool(la == lb), path+"(len)")
	}
}

func registerHavoc(m map[string]modelFn) {
	m[zzPkg+"Havoc"] = func(e *Engine, st *State, c *callCtx) {
		name := e.inputName(st, e.argString(st, c.args[0]))
		iv := c.args[1].(IfaceVal)
		pt, ok := iv.typ.Underlying().(*types.Pointer)
		p, ok2 := iv.v.(PtrVal)
		if !ok || !ok2 || p.obj <= 0 {
			e.unsupported(st, "zz.Havoc needs a non-nil pointer")
		}
		h := &havocCtx{e: e, st: st, name: name, seen: map[int]bool{p.obj: true}}
		h.walk(p.obj, p.off, pt.Elem(), "", 0)
		if e.concrete != nil {
			// concrete replay: substitute the recorded values
			ci, _ := e.nextConcrete(st)
			for i, t := range h.terms {
				v := int64(0)
				if i < len(ci.Ints) {
					v = ci.Ints[i]
				}
				h.terms[i] = e.ctx.BV(t.w, uint64(v))
				if t.w == 0 {
					h.terms[i] = e.ctx.Bool(v != 0)
				}
			}
			e.unsupported(st, "zz.Havoc in concrete engine mode is not implemented")
		}
		e.recordInput(st, name, "havoc", 64, h.terms)
		e.finish(st, c, nil)
	}
	m[zzPkg+"SameState"] = func(e *Engine, st *State, c *callCtx) {
		a, b := c.args[0].(IfaceVal), c.args[1].(IfaceVal)
		ign := e.argString(st, c.args[2])
		pt := a.typ.Underlying().(*types.Pointer)
		ap, bp := a.v.(PtrVal), b.v.(PtrVal)
		cc := &cmpCtx{e: e, st: st, ignore: map[string]bool{}, acc: e.ctx.True, seen: map[[2]int]bool{}}
		for _, f := range strings.Split(ign, ",") {
			if f = strings.TrimSpace(f); f != "" {
				cc.ignore[f] = true
			}
		}
		cc.walk(ap.obj, ap.off, bp.obj, bp.off, pt.Elem(), "", 0)
		if len(cc.diffs) > 0 {
			st.notes = append(st.notes, "state differs (possibly) at: "+strings.Join(cc.diffs, " "))
			if e.trace {
				fmt.Println("SameState candidates:", strings.Join(cc.diffs, " "))
			}
		}
		e.finish(st, c, cc.acc)
	}
}
