package main

// One long-lived SMT solver process per worker, driven over a pipe with push/pop.

import (
	"bufio"
	"fmt"
	"io"
	"os/exec"
	"strconv"
	"strings"
	"time"
)

type Result int

const (
	Unsat Result = iota
	Sat
	Unknown
)

func (r Result) String() string { return [...]string{"unsat", "sat", "unknown"}[r] }

type Solver struct {
	cmd      *exec.Cmd
	in       io.WriteCloser
	bw       *bufio.Writer
	out      *bufio.Reader
	name     string
	stack    []*Term         // asserted constraints, one push level each
	declLvl  map[*Term]int   // variable -> level at which it was declared
	declared [][]*Term       // per level
	Queries  int
	SatN     int
	UnsatN   int
	UnknownN int
	Time     time.Duration
	Errors   []string
	log      io.Writer
	timeoutMs int
}

func NewSolver(bin string, args []string, timeoutMs int) (*Solver, error) {
	cmd := exec.Command(bin, args...)
	in, err := cmd.StdinPipe()
	if err != nil {
		return nil, err
	}
	outp, err := cmd.StdoutPipe()
	if err != nil {
		return nil, err
	}
	cmd.Stderr = cmd.Stdout
	if err := cmd.Start(); err != nil {
		return nil, err
	}
	s := &Solver{cmd: cmd, in: in, out: bufio.NewReaderSize(outp, 1<<16), name: bin,
		declLvl: map[*Term]int{}, declared: [][]*Term{nil}, timeoutMs: timeoutMs}
	s.bw = bufio.NewWriterSize(in, 1<<16)
	s.send("(set-option :print-success false)")
	s.send("(set-option :produce-models true)")
	if strings.Contains(bin, "z3") && timeoutMs > 0 {
		s.send(fmt.Sprintf("(set-option :timeout %d)", timeoutMs))
	}
	return s, nil
}

func NewZ3(timeoutMs int) (*Solver, error) { return NewSolver("z3", []string{"-in"}, timeoutMs) }

func (s *Solver) Close() {
	if s == nil || s.cmd == nil {
		return
	}
	s.in.Close()
	s.cmd.Process.Kill()
	s.cmd.Wait()
	s.cmd = nil
}

func (s *Solver) send(line string) {
	if s.log != nil {
		fmt.Fprintln(s.log, line)
	}
	s.bw.WriteString(line)
	s.bw.WriteByte('\n')
}

func (s *Solver) readLine() string {
	s.bw.Flush()
	l, err := s.out.ReadString('\n')
	if err != nil {
		s.Errors = append(s.Errors, "solver pipe: "+err.Error())
		return "(error \"pipe closed\")"
	}
	return strings.TrimSpace(l)
}

func (s *Solver) level() int { return len(s.stack) }

func (s *Solver) declareVars(t *Term) {
	set := map[*Term]bool{}
	t.Vars(set, map[*Term]bool{})
	for v := range set {
		if _, ok := s.declLvl[v]; ok {
			continue
		}
		lvl := len(s.declared) - 1
		s.declLvl[v] = lvl
		s.declared[lvl] = append(s.declared[lvl], v)
		if v.w == 0 {
			s.send(fmt.Sprintf("(declare-const %s Bool)", smtName(v.name)))
		} else {
			s.send(fmt.Sprintf("(declare-const %s (_ BitVec %d))", smtName(v.name), v.w))
		}
	}
}

func (s *Solver) Push(t *Term) {
	s.send("(push 1)")
	s.declared = append(s.declared, nil)
	s.stack = append(s.stack, t)
	s.declareVars(t)
	s.send("(assert " + t.SMT() + ")")
}

func (s *Solver) Pop(n int) {
	if n <= 0 {
		return
	}
	s.send("(pop " + strconv.Itoa(n) + ")")
	for i := 0; i < n; i++ {
		lvl := len(s.declared) - 1
		for _, v := range s.declared[lvl] {
			delete(s.declLvl, v)
		}
		s.declared = s.declared[:lvl]
	}
	s.stack = s.stack[:len(s.stack)-n]
}

// SyncTo makes the solver's assertion stack equal to pc (a list from oldest to newest).
func (s *Solver) SyncTo(pc []*Term) {
	i := 0
	for i < len(pc) && i < len(s.stack) && pc[i] == s.stack[i] {
		i++
	}
	s.Pop(len(s.stack) - i)
	for ; i < len(pc); i++ {
		s.Push(pc[i])
	}
}

func (s *Solver) checkSat() Result {
	t0 := time.Now()
	s.send("(check-sat)")
	res := Unknown
	for {
		l := s.readLine()
		if l == "sat" {
			res = Sat
			break
		}
		if l == "unsat" {
			res = Unsat
			break
		}
		if l == "unknown" || l == "timeout" {
			res = Unknown
			break
		}
		if strings.HasPrefix(l, "(error") {
			s.Errors = append(s.Errors, l)
			if strings.Contains(l, "pipe closed") {
				break
			}
			continue
		}
		if l == "" {
			continue
		}
		s.Errors = append(s.Errors, "unexpected solver output: "+l)
	}
	s.Queries++
	switch res {
	case Sat:
		s.SatN++
	case Unsat:
		s.UnsatN++
	default:
		s.UnknownN++
	}
	s.Time += time.Since(t0)
	return res
}

// Check decides satisfiability of the current stack plus extra (not kept).
func (s *Solver) Check(extra *Term) Result {
	if extra == nil {
		return s.checkSat()
	}
	if extra.IsFalse() {
		return Unsat
	}
	s.send("(push 1)")
	s.declared = append(s.declared, nil)
	s.stack = append(s.stack, extra)
	s.declareVars(extra)
	s.send("(assert " + extra.SMT() + ")")
	r := s.checkSat()
	s.Pop(1)
	return r
}

// CheckModel is Check followed (when sat) by reading values of vars.
func (s *Solver) CheckModel(extra *Term, vars []*Term) (Result, map[string]uint64) {
	pushed := false
	if extra != nil {
		if extra.IsFalse() {
			return Unsat, nil
		}
		s.send("(push 1)")
		s.declared = append(s.declared, nil)
		s.stack = append(s.stack, extra)
		s.declareVars(extra)
		s.send("(assert " + extra.SMT() + ")")
		pushed = true
	}
	r := s.checkSat()
	var m map[string]uint64
	if r == Sat {
		m = s.getValues(vars)
	}
	if pushed {
		s.Pop(1)
	}
	return r, m
}

func (s *Solver) getValues(vars []*Term) map[string]uint64 {
	m := map[string]uint64{}
	var want []*Term
	for _, v := range vars {
		if _, ok := s.declLvl[v]; ok {
			want = append(want, v)
		} else {
			m[v.name] = 0
		}
	}
	for len(want) > 0 {
		n := len(want)
		if n > 200 {
			n = 200
		}
		var sb strings.Builder
		sb.WriteString("(get-value (")
		for _, v := range want[:n] {
			sb.WriteString(smtName(v.name))
			sb.WriteByte(' ')
		}
		sb.WriteString("))")
		s.send(sb.String())
		// read until parentheses balance
		var buf strings.Builder
		depth := 0
		started := false
		for {
			l := s.readLine()
			if strings.HasPrefix(l, "(error") {
				s.Errors = append(s.Errors, l)
				break
			}
			buf.WriteString(l)
			buf.WriteByte(' ')
			for _, ch := range l {
				if ch == '(' {
					depth++
					started = true
				} else if ch == ')' {
					depth--
				}
			}
			if started && depth <= 0 {
				break
			}
		}
		parseValues(buf.String(), m)
		want = want[n:]
	}
	return m
}

func parseValues(s string, m map[string]uint64) {
	// format: ((|name| #x..) (|n2| true) ...)
	i := 0
	for i < len(s) {
		j := strings.IndexByte(s[i:], '|')
		if j < 0 {
			break
		}
		j += i
		k := strings.IndexByte(s[j+1:], '|')
		if k < 0 {
			break
		}
		k += j + 1
		name := s[j+1 : k]
		rest := strings.TrimLeft(s[k+1:], " ")
		e := strings.IndexAny(rest, ") ")
		if e < 0 {
			break
		}
		tok := rest[:e]
		var v uint64
		switch {
		case tok == "true":
			v = 1
		case tok == "false":
			v = 0
		case strings.HasPrefix(tok, "#x"):
			v, _ = strconv.ParseUint(tok[2:], 16, 64)
		case strings.HasPrefix(tok, "#b"):
			v, _ = strconv.ParseUint(tok[2:], 2, 64)
		}
		m[name] = v
		i = k + 1 + (len(s[k+1:]) - len(rest)) + e
	}
}
