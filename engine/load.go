package main

import (
	"fmt"
	"os"
	"path/filepath"
	"sort"
	"strings"

	"golang.org/x/tools/go/packages"
	"golang.org/x/tools/go/ssa"
	"golang.org/x/tools/go/ssa/ssautil"
)

// repoDir is the tree that is analysed: /repo, unless SYMGO_REPO points at a scratch copy (used
// by tools/try_seed.sh so that a seeded change never touches /repo itself)
var repoDir = "/repo"
const modPath = "github.com/cloudwego/hertz"

var verifDir = "/verif"

// hzModule is the directory (relative to the repository root) of the second Go module in the
// repository, the hz code generator.
const hzModule = "cmd/hz"

// moduleOf returns, for a package directory relative to the repository root, the directory of
// the Go module it belongs to, the package pattern relative to that module and the import path
// of the module's copy of the intrinsics package.
func moduleOf(pkgRel string) (dir, pattern, zzImport string) {
	pkgRel = strings.TrimPrefix(pkgRel, "./")
	if strings.HasPrefix(pkgRel, hzModule+"/") {
		return filepath.Join(repoDir, hzModule), "./" + strings.TrimPrefix(pkgRel, hzModule+"/"), modPath + "/" + hzModule + "/internal/zzverif"
	}
	return repoDir, "./" + pkgRel, modPath + "/internal/zzverif"
}

// overlayFiles maps virtual paths under /repo to real harness files under /verif/harness.
func overlayFiles() (map[string]string, error) {
	ov := map[string]string{}
	root := filepath.Join(verifDir, "harness")
	err := filepath.Walk(root, func(p string, info os.FileInfo, err error) error {
		if err != nil {
			return err
		}
		if info.IsDir() || !strings.HasSuffix(p, ".go") {
			return nil
		}
		rel, _ := filepath.Rel(root, p)
		dir, base := filepath.Split(rel)
		if strings.HasPrefix(rel, "zzverif/") {
			ov[filepath.Join(repoDir, "internal/zzverif", base)] = p
			// the hz tool is a module of its own: it gets its own copy of the intrinsics package
			ov[filepath.Join(repoDir, hzModule, "internal/zzverif", base)] = p
			return nil
		}
		ov[filepath.Join(repoDir, dir, "zz_verif_"+base)] = p
		return nil
	})
	if err != nil {
		return nil, err
	}
	gen, err := generatedOverlay()
	if err != nil {
		return nil, err
	}
	for v, r := range gen {
		ov[v] = r
	}
	return ov, nil
}

func goEnv() []string {
	env := os.Environ()
	env = append(env, "GOFLAGS=-mod=mod", "GOPROXY=off", "GOSUMDB=off", "GOTOOLCHAIN=local", "MOCKEY_CHECK_GCFLAGS=false")
	return env
}

type Loaded struct {
	prog *ssa.Program
	pkgs map[string]*ssa.Package
	ov   map[string]string
}

func loadProgram(patterns []string) (*Loaded, error) {
	ov, err := overlayFiles()
	if err != nil {
		return nil, err
	}
	overlay := map[string][]byte{}
	for v, real := range ov {
		b, err := os.ReadFile(real)
		if err != nil {
			return nil, err
		}
		overlay[v] = b
	}
	// all patterns of one load belong to one module
	dir := repoDir
	for i, p := range patterns {
		var pat string
		dir, pat, _ = moduleOf(p)
		patterns[i] = pat
	}
	cfg := &packages.Config{
		Mode: packages.NeedName | packages.NeedFiles | packages.NeedCompiledGoFiles | packages.NeedImports |
			packages.NeedDeps | packages.NeedTypes | packages.NeedSyntax | packages.NeedTypesInfo | packages.NeedTypesSizes | packages.NeedModule,
		Dir:        dir,
		BuildFlags: []string{"-tags=verif"},
		Overlay:    overlay,
		Env:        goEnv(),
	}
	initial, err := packages.Load(cfg, patterns...)
	if err != nil {
		return nil, err
	}
	nerr := 0
	packages.Visit(initial, nil, func(p *packages.Package) {
		for _, e := range p.Errors {
			fmt.Fprintf(os.Stderr, "load error: %s: %v\n", p.PkgPath, e)
			nerr++
		}
	})
	if nerr > 0 {
		return nil, fmt.Errorf("%d package load errors", nerr)
	}
	prog, _ := ssautil.AllPackages(initial, ssa.InstantiateGenerics)
	prog.Build()
	l := &Loaded{prog: prog, pkgs: map[string]*ssa.Package{}, ov: ov}
	for _, p := range prog.AllPackages() {
		l.pkgs[p.Pkg.Path()] = p
	}
	return l, nil
}

// harnessFuncs lists ZZ_ functions of a package.
func (l *Loaded) harnessFuncs(pkg string) []string {
	p := l.pkgs[pkg]
	if p == nil {
		return nil
	}
	var out []string
	for name, m := range p.Members {
		if _, ok := m.(*ssa.Function); ok && strings.HasPrefix(name, "ZZ_") {
			out = append(out, name)
		}
	}
	sort.Strings(out)
	return out
}
