package main

import (
	"fmt"
	"go/types"
	"sort"
)

// Intrinsics of package internal/zzverif (overlay package; natively they replay a model).

func (e *Engine) recordInput(st *State, name, kind string, w uint8, terms []*Term) {
	st.inputs = append(st.inputs, inputRec{Name: name, Kind: kind, Terms: terms, W: w})
}

func (e *Engine) inputName(st *State, name string) string {
	return fmt.Sprintf("%s#%d", name, len(st.inputs))
}

// concrete replay inside the engine: intrinsics return the recorded values (used to validate the
// translator against native execution and to debug unreproduced counterexamples).
func (e *Engine) nextConcrete(st *State) (ReplayInput, bool) {
	if e.concrete == nil {
		return ReplayInput{}, false
	}
	i := len(st.inputs)
	if i < len(e.concrete) {
		return e.concrete[i], true
	}
	return ReplayInput{}, true
}

func registerIntrinsics(m map[string]modelFn) {
	m[zzPkg+"Byte"] = func(e *Engine, st *State, c *callCtx) {
		n := e.inputName(st, e.argString(st, c.args[0]))
		v := e.ctx.Var(n, 8)
		if ci, ok := e.nextConcrete(st); ok {
			v = e.ctx.BV(8, uint64(ci.Int))
		}
		e.recordInput(st, n, "byte", 8, []*Term{v})
		e.finish(st, c, v)
	}
	m[zzPkg+"Bool"] = func(e *Engine, st *State, c *callCtx) {
		n := e.inputName(st, e.argString(st, c.args[0]))
		v := e.ctx.Var(n, 0)
		if ci, ok := e.nextConcrete(st); ok {
			v = e.ctx.Bool(ci.Int != 0)
		}
		e.recordInput(st, n, "bool", 0, []*Term{v})
		e.finish(st, c, v)
	}
	mkInt := func(w uint8, kind string) modelFn {
		return func(e *Engine, st *State, c *callCtx) {
			n := e.inputName(st, e.argString(st, c.args[0]))
			v := e.ctx.Var(n, w)
			if ci, ok := e.nextConcrete(st); ok {
				v = e.ctx.BV(w, uint64(ci.Int))
			}
			e.recordInput(st, n, kind, w, []*Term{v})
			e.finish(st, c, v)
		}
	}
	m[zzPkg+"Int"] = mkInt(64, "int")
	m[zzPkg+"Int64"] = mkInt(64, "int")
	m[zzPkg+"Uint64"] = mkInt(64, "int")
	m[zzPkg+"Int32"] = mkInt(32, "int")
	m[zzPkg+"Int8"] = mkInt(8, "int")
	m[zzPkg+"Bytes"] = func(e *Engine, st *State, c *callCtx) {
		n := e.inputName(st, e.argString(st, c.args[0]))
		k := e.argInt(st, c.args[1], "zz.Bytes length")
		terms := make([]*Term, k)
		slots := make([]Value, k)
		ci, conc := e.nextConcrete(st)
		for i := range terms {
			terms[i] = e.ctx.Var(fmt.Sprintf("%s[%d]", n, i), 8)
			if conc {
				bv := 0
				if i < len(ci.Bytes) {
					bv = ci.Bytes[i]
				}
				terms[i] = e.ctx.BV(8, uint64(bv))
			}
			slots[i] = terms[i]
		}
		e.recordInput(st, n, "bytes", 8, terms)
		id := e.allocMem(st, slots, "zz.Bytes")
		e.finish(st, c, SliceVal{obj: id, off: 0, len: k, cap: k, esz: 1})
	}
	m[zzPkg+"Str"] = func(e *Engine, st *State, c *callCtx) {
		n := e.inputName(st, e.argString(st, c.args[0]))
		k := e.argInt(st, c.args[1], "zz.Str length")
		terms := make([]*Term, k)
		slots := make([]Value, k)
		ci, conc := e.nextConcrete(st)
		for i := range terms {
			terms[i] = e.ctx.Var(fmt.Sprintf("%s[%d]", n, i), 8)
			if conc {
				bv := 0
				if i < len(ci.Bytes) {
					bv = ci.Bytes[i]
				}
				terms[i] = e.ctx.BV(8, uint64(bv))
			}
			slots[i] = terms[i]
		}
		e.recordInput(st, n, "bytes", 8, terms)
		if k == 0 {
			e.finish(st, c, StrVal{})
			return
		}
		id := e.allocMem(st, slots, "zz.Str")
		e.finish(st, c, StrVal{obj: id, off: 0, len: k})
	}
	// Range(name, lo, hi): concrete choice, one path per feasible value
	m[zzPkg+"Range"] = func(e *Engine, st *State, c *callCtx) {
		n := e.inputName(st, e.argString(st, c.args[0]))
		lo := e.argInt(st, c.args[1], "zz.Range lo")
		hi := e.argInt(st, c.args[2], "zz.Range hi")
		e.chooseModel(st, c, n, lo, hi)
	}
	m[zzPkg+"Choose"] = func(e *Engine, st *State, c *callCtx) {
		n := e.inputName(st, e.argString(st, c.args[0]))
		k := e.argInt(st, c.args[1], "zz.Choose k")
		e.chooseModel(st, c, n, 0, k-1)
	}
	m[zzPkg+"Param"] = func(e *Engine, st *State, c *callCtx) {
		name := e.argString(st, c.args[0])
		def := e.argInt(st, c.args[1], "zz.Param default")
		if v, ok := e.params[name]; ok {
			def = v
		}
		e.finish(st, c, e.intVal(def))
	}
	m[zzPkg+"Assume"] = func(e *Engine, st *State, c *callCtx) {
		cond := c.args[0].(*Term)
		if cond.IsTrue() {
			e.finish(st, c, nil)
			return
		}
		if cond.IsFalse() {
			st.done = true
			e.stats.Infeasible++
			panic(pathEnd{"assume false"})
		}
		// keep the path only if feasible
		if st.model != nil && e.ctx.Eval(cond, st.model, map[*Term]uint64{}) == 1 {
			e.addPC(st, cond)
			e.finish(st, c, nil)
			return
		}
		e.solver.SyncTo(st.pcList())
		r, mdl := e.solver.CheckModel(cond, e.inputVars(st, cond))
		switch r {
		case Sat:
			e.addPC(st, cond)
			st.model = mdl
			e.finish(st, c, nil)
		case Unsat:
			st.done = true
			e.stats.Infeasible++
			panic(pathEnd{"assume infeasible"})
		default:
			e.stats.SolverUnknown++
			e.unsupported(st, "solver unknown at assume")
		}
	}
	m[zzPkg+"Assert"] = func(e *Engine, st *State, c *callCtx) {
		name := e.argString(st, c.args[0])
		cond := c.args[1].(*Term)
		e.checkAssert(st, name, cond)
		if st.done {
			panic(pathEnd{"assert failed on whole path"})
		}
		e.finish(st, c, nil)
	}
	// Slow: the code running here takes its time. No effect on the symbolic run (schedules are
	// fixed by the go policy); the native twin sleeps, so that a replayed counterexample of a
	// "goroutine runs late" schedule shows the same order natively.
	m[zzPkg+"Slow"] = func(e *Engine, st *State, c *callCtx) {
		st.clock += 30000000 // the modelled clock advances by the 30 ms the native twin sleeps
		e.finish(st, c, nil)
	}
	m[zzPkg+"SlowFor"] = func(e *Engine, st *State, c *callCtx) {
		ms := e.concreteInt(st, c.args[0], "SlowFor milliseconds")
		st.clock += int64(ms) * 1000000
		e.finish(st, c, nil)
	}
	m[zzPkg+"Cover"] = func(e *Engine, st *State, c *callCtx) {
		name := e.argString(st, c.args[0])
		cond := c.args[1].(*Term)
		hit := false
		if cond.IsTrue() {
			hit = true
		} else if !cond.IsFalse() {
			if e.stats.Covers[name] > 0 || (st.covers != nil && st.covers[name]) {
				hit = false // already covered elsewhere; skip query
			} else {
				e.solver.SyncTo(st.pcList())
				hit = e.solver.Check(cond) == Sat
				if hit {
					e.stats.Covers[name]++
				}
				hit = false
			}
		}
		if hit {
			if st.covers == nil {
				st.covers = map[string]bool{}
			}
			st.covers[name] = true
		}
		e.finish(st, c, nil)
	}
	// Known(name, cond) bool: returns cond as a concrete bool; when true the path is inside
	// the region of known finding `name`.
	m[zzPkg+"Known"] = func(e *Engine, st *State, c *callCtx) {
		name := e.argString(st, c.args[0])
		cond := c.args[1].(*Term)
		e.fork(st, []Alt{
			{cond, func(s *State) {
				s.known = append(s.known, name)
				e.finish(s, c, e.ctx.True)
			}},
			{e.ctx.Not(cond), func(s *State) { e.finish(s, c, e.ctx.False) }},
		})
	}
	m[zzPkg+"Observe"] = func(e *Engine, st *State, c *callCtx) {
		name := e.argString(st, c.args[0])
		iv := c.args[1].(IfaceVal)
		var terms []*Term
		isStr := false
		switch v := iv.v.(type) {
		case *Term:
			terms = []*Term{v}
		case SliceVal:
			isStr = true
			for _, b := range e.sliceSlots(st, v) {
				terms = append(terms, b.(*Term))
			}
		case StrVal:
			isStr = true
			for _, b := range e.strBytes(st, v) {
				terms = append(terms, b.(*Term))
			}
		default:
			e.unsupported(st, fmt.Sprintf("zz.Observe of %T", iv.v))
		}
		st.observes = append(st.observes, observeRec{Name: name, Terms: terms, Str: isStr})
		if e.concrete != nil {
			fmt.Println(e.renderObserve(observeRec{Name: name, Terms: terms, Str: isStr}, nil))
		}
		e.finish(st, c, nil)
	}
	m[zzPkg+"Symbolic"] = func(e *Engine, st *State, c *callCtx) { e.finish(st, c, e.ctx.True) }
	m[zzPkg+"Note"] = nop
}

func (e *Engine) chooseModel(st *State, c *callCtx, name string, lo, hi int) {
	if hi < lo {
		st.done = true
		panic(pathEnd{"empty choose"})
	}
	v := e.ctx.Var(name, 64)
	if ci, ok := e.nextConcrete(st); ok {
		cv := int(ci.Int)
		if cv < lo || cv > hi {
			cv = lo
		}
		e.recordInput(st, name, "choose", 64, []*Term{e.intVal(cv)})
		e.finish(st, c, e.intVal(cv))
		return
	}
	e.recordInput(st, name, "choose", 64, []*Term{v})
	var alts []Alt
	var vals []uint64
	for i := lo; i <= hi; i++ {
		k := e.intVal(i)
		alts = append(alts, Alt{e.ctx.Eq(v, k), func(s *State) { e.finish(s, c, k) }})
		vals = append(vals, k.val)
	}
	if len(alts) == 1 {
		e.addPC(st, alts[0].cond)
		if st.model != nil {
			nm := make(map[string]uint64, len(st.model)+1)
			for k, x := range st.model {
				nm[k] = x
			}
			nm[v.name] = vals[0]
			st.model = nm
		}
		e.finish(st, c, e.intVal(lo))
		return
	}
	e.forkFresh(st, v, vals, alts)
}

// checkAssert asks the solver for a counterexample to cond under the path condition.
func (e *Engine) renderObserve(o observeRec, model map[string]uint64) string {
	memo := map[*Term]uint64{}
	if model == nil {
		model = map[string]uint64{}
	}
	if o.Str {
		b := make([]byte, len(o.Terms))
		for i, t := range o.Terms {
			b[i] = byte(e.ctx.Eval(t, model, memo))
		}
		return fmt.Sprintf("ZZ-OBS %s %x", o.Name, b)
	}
	t := o.Terms[0]
	v := e.ctx.Eval(t, model, memo)
	if t.w == 0 {
		return fmt.Sprintf("ZZ-OBS %s %v", o.Name, v == 1)
	}
	return fmt.Sprintf("ZZ-OBS %s %d", o.Name, sext(v, t.w))
}

func (e *Engine) checkAssert(st *State, name string, cond *Term) {
	e.stats.AssertsChecked++
	if e.concrete != nil && cond.IsFalse() {
		fmt.Printf("ZZ-ASSERT-FAIL %s\n", name)
	}
	if cond.IsTrue() {
		return
	}
	neg := e.ctx.Not(cond)
	e.solver.SyncTo(st.pcList())
	e.stats.AssertQueries++
	r, mdl := e.solver.CheckModel(neg, e.inputVars(st, neg))
	if r == Unknown && e.solver2 != nil {
		// the primary solver gave up: the second solver decides (no cross-check possible then)
		e.solver2.SyncTo(st.pcList())
		r, mdl = e.solver2.CheckModel(neg, e.inputVars(st, neg))
		if r != Unknown {
			e.rescued++
		}
	} else if e.solver2 != nil && r != Unknown {
		// every assertion verdict is re-asked of an independent solver build (z3 5.1.0)
		e.solver2.SyncTo(st.pcList())
		e.crossChecked++
		if r2 := e.solver2.Check(neg); r2 != r && r2 != Unknown {
			e.stats.Unsupported[fmt.Sprintf("solver disagreement at assert %s: z3=%s z3-new=%s", name, r, r2)]++
		}
	}
	switch r {
	case Sat:
		site := ""
		if len(st.frames) >= 1 {
			site = st.top().fn.String()
		}
		e.recordViolation(st, "assert", name, site, mdl)
		// continue with cond assumed (other assertions on this path are still checked)
		if cond.IsFalse() {
			st.done = true
			return
		}
		e.addPC(st, cond)
		st.model = nil
		// make sure the path is still feasible
		if e.solver.Check(cond) != Sat {
			st.done = true
		}
	case Unsat:
	default:
		e.stats.SolverUnknown++
		e.stats.Unsupported["solver unknown at assert "+name]++
	}
}

func (e *Engine) recordViolation(st *State, kind, name, site string, mdl map[string]uint64) {
	st.violated = true
	if mdl == nil {
		e.solver.SyncTo(st.pcList())
		r, m2 := e.solver.CheckModel(nil, e.inputVars(st, nil))
		if r != Sat {
			e.stats.Unsupported["no model for violating path"]++
			return
		}
		mdl = m2
	}
	v := &Violation{Harness: e.harness, Kind: kind, Name: name, Site: site, Model: mdl,
		Inputs: append([]inputRec(nil), st.inputs...)}
	key := kind + ":" + name + "@" + site
	for _, k := range st.known {
		if kf, ok := e.known[k]; ok && kf.matches(e.harness, key) {
			v.Known = k
			break
		}
	}
	v.Detail = key
	if len(st.known) > 0 {
		sort.Strings(st.known)
		v.Detail += fmt.Sprintf(" regions=%v", st.known)
	}
	// dedupe
	for _, o := range e.violations {
		if o.Kind == v.Kind && o.Name == v.Name && o.Site == v.Site && o.Known == v.Known {
			return
		}
	}
	e.violations = append(e.violations, v)
}

var _ = types.Typ
