package main

// Hash-consed SMT terms (booleans and bit-vectors up to 64 bits) with constant folding.

import (
	"fmt"
	"math/bits"
	"strconv"
	"strings"
)

type Op uint8

const (
	OpConst Op = iota
	OpVar
	OpNot
	OpAnd
	OpOr
	OpIte
	OpEq
	OpAdd
	OpSub
	OpMul
	OpUDiv
	OpURem
	OpSDiv
	OpSRem
	OpBAnd
	OpBOr
	OpBXor
	OpShl
	OpLShr
	OpAShr
	OpUlt
	OpUle
	OpSlt
	OpSle
	OpExtract // val = hi<<8|lo
	OpZext    // to width w
	OpSext
	OpConcat
)

var opNames = map[Op]string{
	OpNot: "not", OpAnd: "and", OpOr: "or", OpIte: "ite", OpEq: "=", OpAdd: "bvadd", OpSub: "bvsub",
	OpMul: "bvmul", OpUDiv: "bvudiv", OpURem: "bvurem", OpSDiv: "bvsdiv", OpSRem: "bvsrem",
	OpBAnd: "bvand", OpBOr: "bvor", OpBXor: "bvxor", OpShl: "bvshl", OpLShr: "bvlshr", OpAShr: "bvashr",
	OpUlt: "bvult", OpUle: "bvule", OpSlt: "bvslt", OpSle: "bvsle", OpConcat: "concat",
}

// Term: w == 0 means Bool.
type Term struct {
	op   Op
	w    uint8
	val  uint64
	name string
	args []*Term
	id   int
	vars []*Term
	varsDone bool
}

type termKey struct {
	op      Op
	w       uint8
	val     uint64
	name    string
	a, b, c int
}

type Ctx struct {
	tab    map[termKey]*Term
	nextID int
	True   *Term
	False  *Term
	small  [65][]*Term // cached small constants per width
	varSeq int
}

func NewCtx() *Ctx {
	c := &Ctx{tab: map[termKey]*Term{}}
	c.True = c.mk(OpConst, 0, 1, "", nil)
	c.False = c.mk(OpConst, 0, 0, "", nil)
	return c
}

func (c *Ctx) mk(op Op, w uint8, val uint64, name string, args []*Term) *Term {
	k := termKey{op: op, w: w, val: val, name: name, a: -1, b: -1, c: -1}
	if len(args) > 0 {
		k.a = args[0].id
	}
	if len(args) > 1 {
		k.b = args[1].id
	}
	if len(args) > 2 {
		k.c = args[2].id
	}
	if len(args) > 3 {
		panic("too many args")
	}
	if t, ok := c.tab[k]; ok {
		return t
	}
	c.nextID++
	t := &Term{op: op, w: w, val: val, name: name, args: args, id: c.nextID}
	c.tab[k] = t
	return t
}

func mask(w uint8) uint64 {
	if w >= 64 {
		return ^uint64(0)
	}
	return (uint64(1) << w) - 1
}

func (c *Ctx) BV(w uint8, v uint64) *Term {
	v &= mask(w)
	if v < 300 {
		if c.small[w] == nil {
			c.small[w] = make([]*Term, 300)
		}
		if t := c.small[w][v]; t != nil {
			return t
		}
		t := c.mk(OpConst, w, v, "", nil)
		c.small[w][v] = t
		return t
	}
	return c.mk(OpConst, w, v, "", nil)
}

func (c *Ctx) Bool(b bool) *Term {
	if b {
		return c.True
	}
	return c.False
}

func (c *Ctx) Var(name string, w uint8) *Term {
	return c.mk(OpVar, w, 0, name, nil)
}

func (c *Ctx) FreshVar(prefix string, w uint8) *Term {
	c.varSeq++
	return c.Var(fmt.Sprintf("%s!%d", prefix, c.varSeq), w)
}

func (t *Term) IsConst() bool { return t.op == OpConst }
func (t *Term) IsBool() bool  { return t.w == 0 }
func (t *Term) IsTrue() bool  { return t.op == OpConst && t.w == 0 && t.val == 1 }
func (t *Term) IsFalse() bool { return t.op == OpConst && t.w == 0 && t.val == 0 }

// signed value of constant
func (t *Term) Signed() int64 {
	return sext(t.val, t.w)
}

func sext(v uint64, w uint8) int64 {
	if w >= 64 {
		return int64(v)
	}
	sh := 64 - w
	return int64(v<<sh) >> sh
}

func (c *Ctx) Not(a *Term) *Term {
	if a.op == OpConst {
		return c.Bool(a.val == 0)
	}
	if a.op == OpNot {
		return a.args[0]
	}
	return c.mk(OpNot, 0, 0, "", []*Term{a})
}

func (c *Ctx) And(a, b *Term) *Term {
	if a.op == OpConst {
		if a.val == 0 {
			return c.False
		}
		return b
	}
	if b.op == OpConst {
		if b.val == 0 {
			return c.False
		}
		return a
	}
	if a == b {
		return a
	}
	if c.Not(a) == b {
		return c.False
	}
	return c.mk(OpAnd, 0, 0, "", []*Term{a, b})
}

func (c *Ctx) Or(a, b *Term) *Term {
	if a.op == OpConst {
		if a.val == 1 {
			return c.True
		}
		return b
	}
	if b.op == OpConst {
		if b.val == 1 {
			return c.True
		}
		return a
	}
	if a == b {
		return a
	}
	if c.Not(a) == b {
		return c.True
	}
	return c.mk(OpOr, 0, 0, "", []*Term{a, b})
}

func (c *Ctx) AndN(ts ...*Term) *Term {
	r := c.True
	for _, t := range ts {
		r = c.And(r, t)
	}
	return r
}

func (c *Ctx) Ite(cond, a, b *Term) *Term {
	if cond.op == OpConst {
		if cond.val == 1 {
			return a
		}
		return b
	}
	if a == b {
		return a
	}
	if a.w == 0 {
		if a.IsTrue() && b.IsFalse() {
			return cond
		}
		if a.IsFalse() && b.IsTrue() {
			return c.Not(cond)
		}
		if a.IsTrue() {
			return c.Or(cond, b)
		}
		if a.IsFalse() {
			return c.And(c.Not(cond), b)
		}
		if b.IsTrue() {
			return c.Or(c.Not(cond), a)
		}
		if b.IsFalse() {
			return c.And(cond, a)
		}
	}
	return c.mk(OpIte, a.w, 0, "", []*Term{cond, a, b})
}

func (c *Ctx) Eq(a, b *Term) *Term {
	if a == b {
		return c.True
	}
	if a.w != b.w {
		panic(fmt.Sprintf("Eq width mismatch %d %d: %s vs %s", a.w, b.w, a, b))
	}
	if a.op == OpConst && b.op == OpConst {
		return c.Bool(a.val == b.val)
	}
	if a.op == OpConst {
		a, b = b, a
	}
	if b.op == OpConst {
		if a.w == 0 {
			if b.val == 1 {
				return a
			}
			return c.Not(a)
		}
		switch a.op {
		case OpIte:
			// (ite c x y) == k with x,y consts
			x, y := a.args[1], a.args[2]
			if x.op == OpConst || y.op == OpConst {
				return c.Ite(a.args[0], c.Eq(x, b), c.Eq(y, b))
			}
		case OpZext:
			in := a.args[0]
			if b.val > mask(in.w) {
				return c.False
			}
			return c.Eq(in, c.BV(in.w, b.val))
		case OpSext:
			in := a.args[0]
			if uint64(sext(b.val&mask(in.w), in.w))&mask(a.w) != b.val {
				return c.False
			}
			return c.Eq(in, c.BV(in.w, b.val))
		case OpAdd:
			if a.args[1].op == OpConst {
				return c.Eq(a.args[0], c.BV(a.w, b.val-a.args[1].val))
			}
		case OpSub:
			if a.args[1].op == OpConst {
				return c.Eq(a.args[0], c.BV(a.w, b.val+a.args[1].val))
			}
		}
	}
	if a.id > b.id && b.op != OpConst {
		a, b = b, a
	}
	return c.mk(OpEq, 0, 0, "", []*Term{a, b})
}

func (c *Ctx) binFold(op Op, w uint8, x, y uint64) (uint64, bool) {
	m := mask(w)
	switch op {
	case OpAdd:
		return (x + y) & m, true
	case OpSub:
		return (x - y) & m, true
	case OpMul:
		return (x * y) & m, true
	case OpUDiv:
		if y == 0 {
			return m, true
		}
		return x / y, true
	case OpURem:
		if y == 0 {
			return x, true
		}
		return x % y, true
	case OpSDiv:
		if y == 0 {
			return 0, false
		}
		sx, sy := sext(x, w), sext(y, w)
		if sy == -1 {
			return uint64(-sx) & m, true
		}
		return uint64(sx/sy) & m, true
	case OpSRem:
		if y == 0 {
			return 0, false
		}
		sx, sy := sext(x, w), sext(y, w)
		if sy == -1 {
			return 0, true
		}
		return uint64(sx%sy) & m, true
	case OpBAnd:
		return x & y, true
	case OpBOr:
		return x | y, true
	case OpBXor:
		return x ^ y, true
	case OpShl:
		if y >= uint64(w) {
			return 0, true
		}
		return (x << y) & m, true
	case OpLShr:
		if y >= uint64(w) {
			return 0, true
		}
		return x >> y, true
	case OpAShr:
		sx := sext(x, w)
		if y >= uint64(w) {
			y = uint64(w) - 1
		}
		return uint64(sx>>y) & m, true
	}
	return 0, false
}

func (c *Ctx) Bin(op Op, a, b *Term) *Term {
	if a.w != b.w {
		panic(fmt.Sprintf("Bin %v width mismatch %d %d", opNames[op], a.w, b.w))
	}
	w := a.w
	if a.op == OpConst && b.op == OpConst {
		if v, ok := c.binFold(op, w, a.val, b.val); ok {
			return c.BV(w, v)
		}
	}
	switch op {
	case OpAdd:
		if a.op == OpConst {
			a, b = b, a
		}
		if b.op == OpConst {
			if b.val == 0 {
				return a
			}
			if a.op == OpAdd && a.args[1].op == OpConst {
				return c.Bin(OpAdd, a.args[0], c.BV(w, a.args[1].val+b.val))
			}
			if a.op == OpSub && a.args[1].op == OpConst {
				return c.Bin(OpAdd, a.args[0], c.BV(w, b.val-a.args[1].val))
			}
		}
	case OpSub:
		if b.op == OpConst {
			if b.val == 0 {
				return a
			}
			return c.Bin(OpAdd, a, c.BV(w, -b.val))
		}
		if a == b {
			return c.BV(w, 0)
		}
	case OpMul:
		if a.op == OpConst {
			a, b = b, a
		}
		if b.op == OpConst {
			if b.val == 0 {
				return b
			}
			if b.val == 1 {
				return a
			}
		}
	case OpBAnd:
		if a.op == OpConst {
			a, b = b, a
		}
		if b.op == OpConst {
			if b.val == 0 {
				return b
			}
			if b.val == mask(w) {
				return a
			}
		}
		if a == b {
			return a
		}
	case OpBOr, OpBXor:
		if a.op == OpConst {
			a, b = b, a
		}
		if b.op == OpConst && b.val == 0 {
			return a
		}
		if a == b {
			if op == OpBOr {
				return a
			}
			return c.BV(w, 0)
		}
	case OpShl, OpLShr, OpAShr:
		if b.op == OpConst && b.val == 0 {
			return a
		}
	}
	return c.mk(op, w, 0, "", []*Term{a, b})
}

func (c *Ctx) Cmp(op Op, a, b *Term) *Term {
	if a.w != b.w {
		panic(fmt.Sprintf("Cmp width mismatch %d %d", a.w, b.w))
	}
	if a.op == OpConst && b.op == OpConst {
		switch op {
		case OpUlt:
			return c.Bool(a.val < b.val)
		case OpUle:
			return c.Bool(a.val <= b.val)
		case OpSlt:
			return c.Bool(a.Signed() < b.Signed())
		case OpSle:
			return c.Bool(a.Signed() <= b.Signed())
		}
	}
	if a == b {
		return c.Bool(op == OpUle || op == OpSle)
	}
	// narrow comparisons of zero-extended values against constants
	if a.op == OpZext && b.op == OpConst {
		in := a.args[0]
		inMax := mask(in.w)
		// value range of a: [0, inMax], non-negative in signed sense when in.w < a.w
		if in.w < a.w {
			bv := b.val
			bneg := (op == OpSlt || op == OpSle) && b.Signed() < 0
			if bneg {
				return c.False
			}
			if bv > inMax {
				return c.True
			}
			nop := op
			if op == OpSlt {
				nop = OpUlt
			} else if op == OpSle {
				nop = OpUle
			}
			return c.Cmp(nop, in, c.BV(in.w, bv))
		}
	}
	if b.op == OpZext && a.op == OpConst {
		in := b.args[0]
		inMax := mask(in.w)
		if in.w < b.w {
			av := a.val
			aneg := (op == OpSlt || op == OpSle) && a.Signed() < 0
			if aneg {
				return c.True
			}
			if av > inMax {
				return c.False
			}
			nop := op
			if op == OpSlt {
				nop = OpUlt
			} else if op == OpSle {
				nop = OpUle
			}
			return c.Cmp(nop, c.BV(in.w, av), in)
		}
	}
	if a.op == OpZext && b.op == OpZext && a.args[0].w == b.args[0].w && a.args[0].w < a.w {
		nop := op
		if op == OpSlt {
			nop = OpUlt
		} else if op == OpSle {
			nop = OpUle
		}
		return c.Cmp(nop, a.args[0], b.args[0])
	}
	switch op {
	case OpUlt:
		if b.op == OpConst && b.val == 0 {
			return c.False
		}
	case OpUle:
		if a.op == OpConst && a.val == 0 {
			return c.True
		}
		if b.op == OpConst && b.val == mask(b.w) {
			return c.True
		}
	}
	return c.mk(op, 0, 0, "", []*Term{a, b})
}

func (c *Ctx) Extract(a *Term, hi, lo uint8) *Term {
	w := hi - lo + 1
	if w == a.w {
		return a
	}
	if a.op == OpConst {
		return c.BV(w, a.val>>lo)
	}
	if (a.op == OpZext || a.op == OpSext) && lo == 0 {
		in := a.args[0]
		if w == in.w {
			return in
		}
		if w < in.w {
			return c.Extract(in, hi, 0)
		}
		if a.op == OpZext {
			return c.Zext(in, w)
		}
		return c.Sext(in, w)
	}
	return c.mk(OpExtract, w, uint64(hi)<<8|uint64(lo), "", []*Term{a})
}

func (c *Ctx) Zext(a *Term, w uint8) *Term {
	if a.w == w {
		return a
	}
	if a.w > w {
		return c.Extract(a, w-1, 0)
	}
	if a.op == OpConst {
		return c.BV(w, a.val)
	}
	if a.op == OpZext {
		return c.Zext(a.args[0], w)
	}
	if a.op == OpIte && a.args[1].op == OpConst && a.args[2].op == OpConst {
		return c.Ite(a.args[0], c.Zext(a.args[1], w), c.Zext(a.args[2], w))
	}
	return c.mk(OpZext, w, 0, "", []*Term{a})
}

func (c *Ctx) Sext(a *Term, w uint8) *Term {
	if a.w == w {
		return a
	}
	if a.w > w {
		return c.Extract(a, w-1, 0)
	}
	if a.op == OpConst {
		return c.BV(w, uint64(a.Signed()))
	}
	return c.mk(OpSext, w, 0, "", []*Term{a})
}

func (c *Ctx) Neg(a *Term) *Term { return c.Bin(OpSub, c.BV(a.w, 0), a) }
func (c *Ctx) BNot(a *Term) *Term {
	return c.Bin(OpBXor, a, c.BV(a.w, mask(a.w)))
}

// ---------- printing ----------

func (t *Term) String() string {
	var sb strings.Builder
	printTerm(&sb, t, nil)
	s := sb.String()
	if len(s) > 400 {
		s = s[:400] + "..."
	}
	return s
}

func smtName(n string) string { return "|" + n + "|" }

func constStr(t *Term) string {
	if t.w == 0 {
		if t.val == 1 {
			return "true"
		}
		return "false"
	}
	if t.w%4 == 0 {
		return fmt.Sprintf("#x%0*x", int(t.w/4), t.val)
	}
	return fmt.Sprintf("#b%0*b", int(t.w), t.val)
}

func printTerm(sb *strings.Builder, t *Term, lets map[*Term]string) {
	if lets != nil {
		if n, ok := lets[t]; ok {
			sb.WriteString(n)
			return
		}
	}
	switch t.op {
	case OpConst:
		sb.WriteString(constStr(t))
	case OpVar:
		sb.WriteString(smtName(t.name))
	case OpExtract:
		fmt.Fprintf(sb, "((_ extract %d %d) ", t.val>>8, t.val&0xff)
		printTerm(sb, t.args[0], lets)
		sb.WriteByte(')')
	case OpZext:
		fmt.Fprintf(sb, "((_ zero_extend %d) ", t.w-t.args[0].w)
		printTerm(sb, t.args[0], lets)
		sb.WriteByte(')')
	case OpSext:
		fmt.Fprintf(sb, "((_ sign_extend %d) ", t.w-t.args[0].w)
		printTerm(sb, t.args[0], lets)
		sb.WriteByte(')')
	default:
		sb.WriteByte('(')
		sb.WriteString(opNames[t.op])
		for _, a := range t.args {
			sb.WriteByte(' ')
			printTerm(sb, a, lets)
		}
		sb.WriteByte(')')
	}
}

// SMT renders t with let-bindings for shared non-leaf subterms.
func (t *Term) SMT() string {
	// count references
	refs := map[*Term]int{}
	var order []*Term
	var walk func(x *Term)
	walk = func(x *Term) {
		refs[x]++
		if refs[x] > 1 || len(x.args) == 0 {
			return
		}
		for _, a := range x.args {
			walk(a)
		}
		order = append(order, x) // post-order
	}
	walk(t)
	var shared []*Term
	for _, x := range order {
		if refs[x] > 1 && x != t {
			shared = append(shared, x)
		}
	}
	if len(shared) == 0 {
		var sb strings.Builder
		printTerm(&sb, t, nil)
		return sb.String()
	}
	lets := map[*Term]string{}
	var sb strings.Builder
	for _, x := range shared {
		sb.WriteString("(let ((")
		n := "?l" + strconv.Itoa(x.id)
		sb.WriteString(n)
		sb.WriteByte(' ')
		printTerm(&sb, x, lets)
		sb.WriteString(")) ")
		lets[x] = n
	}
	printTerm(&sb, t, lets)
	for range shared {
		sb.WriteByte(')')
	}
	return sb.String()
}

// Vars collects the free variables of t into set.
func (t *Term) Vars(set map[*Term]bool, seen map[*Term]bool) {
	if seen[t] {
		return
	}
	seen[t] = true
	if t.op == OpVar {
		set[t] = true
		return
	}
	for _, a := range t.args {
		a.Vars(set, seen)
	}
}

// Eval evaluates t under a model (missing variables default to 0).
func (c *Ctx) Eval(t *Term, model map[string]uint64, memo map[*Term]uint64) uint64 {
	if t.op == OpConst {
		return t.val
	}
	if v, ok := memo[t]; ok {
		return v
	}
	var r uint64
	switch t.op {
	case OpVar:
		r = model[t.name] & maskB(t.w)
	case OpNot:
		r = 1 - c.Eval(t.args[0], model, memo)
	case OpAnd:
		r = c.Eval(t.args[0], model, memo) & c.Eval(t.args[1], model, memo)
	case OpOr:
		r = c.Eval(t.args[0], model, memo) | c.Eval(t.args[1], model, memo)
	case OpIte:
		if c.Eval(t.args[0], model, memo) == 1 {
			r = c.Eval(t.args[1], model, memo)
		} else {
			r = c.Eval(t.args[2], model, memo)
		}
	case OpEq:
		if c.Eval(t.args[0], model, memo) == c.Eval(t.args[1], model, memo) {
			r = 1
		}
	case OpUlt, OpUle, OpSlt, OpSle:
		x, y := c.Eval(t.args[0], model, memo), c.Eval(t.args[1], model, memo)
		w := t.args[0].w
		var b bool
		switch t.op {
		case OpUlt:
			b = x < y
		case OpUle:
			b = x <= y
		case OpSlt:
			b = sext(x, w) < sext(y, w)
		case OpSle:
			b = sext(x, w) <= sext(y, w)
		}
		if b {
			r = 1
		}
	case OpExtract:
		hi, lo := uint8(t.val>>8), uint8(t.val&0xff)
		r = (c.Eval(t.args[0], model, memo) >> lo) & mask(hi-lo+1)
	case OpZext:
		r = c.Eval(t.args[0], model, memo)
	case OpSext:
		r = uint64(sext(c.Eval(t.args[0], model, memo), t.args[0].w)) & mask(t.w)
	case OpConcat:
		r = (c.Eval(t.args[0], model, memo)<<t.args[1].w | c.Eval(t.args[1], model, memo)) & mask(t.w)
	default:
		x, y := c.Eval(t.args[0], model, memo), c.Eval(t.args[1], model, memo)
		v, ok := c.binFold(t.op, t.w, x, y)
		if !ok {
			// SMT semantics for division by zero
			switch t.op {
			case OpSDiv:
				if sext(x, t.w) < 0 {
					v = 1
				} else {
					v = mask(t.w)
				}
			case OpSRem:
				v = x
			}
		}
		r = v
	}
	memo[t] = r
	return r
}

func maskB(w uint8) uint64 {
	if w == 0 {
		return 1
	}
	return mask(w)
}

var _ = bits.Len
