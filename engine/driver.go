package main

import (
	"encoding/json"
	"fmt"
	"os"
	"os/exec"
	"path/filepath"
	"runtime"
	"sort"
	"strconv"
	"strings"
	"sync"
	"time"

	"golang.org/x/tools/go/ssa"
)

type KnownFinding struct {
	ID       string `json:"id"`
	Property string `json:"property"`
	Harness  string `json:"harness"`
	Site     string `json:"site"`
	What     string `json:"what"`
	Status   string `json:"status"` // "open" or "fixed"
	Commit   string `json:"commit,omitempty"`
}

func (k KnownFinding) matches(harness, key string) bool {
	if k.Status == "fixed" {
		return false
	}
	if k.Harness != "" && k.Harness != harness {
		return false
	}
	for _, alt := range strings.Split(k.Site, "|") {
		if strings.Contains(key, alt) {
			return true
		}
	}
	return false
}

func loadKnown() map[string]KnownFinding {
	out := map[string]KnownFinding{}
	b, err := os.ReadFile(filepath.Join(verifDir, "known_findings.json"))
	if err != nil {
		return out
	}
	var l []KnownFinding
	if err := json.Unmarshal(b, &l); err != nil {
		fmt.Fprintf(os.Stderr, "known_findings.json: %v\n", err)
		os.Exit(2)
	}
	for _, k := range l {
		out[k.ID] = k
	}
	return out
}

type HarnessSpec struct {
	Func     string
	Pkg      string // relative to module root, e.g. "pkg/protocol"
	Quick    map[string]int
	Thorough map[string]int
	Unwind   int
	MaxSteps int
	Covers   []string
	GoPolicy map[string]string
	Split    int
	Note     string
	ThoroughOnly bool
}

type PropSpec struct {
	ID        string
	Harnesses []HarnessSpec
	Assumptions []string
}

type HarnessResult struct {
	Spec       HarnessSpec
	Stats      Stats
	Violations []*Violation
	SolverQ    int
	SolverSat, SolverUnsat, SolverUnknown int
	Rescued                               int // unknown answers of the primary solver decided by the second one
	SolverTime time.Duration
	SolverErrors []string
	Wall       time.Duration
	Validated  int
	ValidationMismatch []string
	Samples    []map[string]interface{}
	Params     map[string]int
	Cases      []ValidationCase
	CrossChecked int
	SolverTime2  time.Duration
}

func mergeStats(dst *Stats, src *Stats) {
	dst.Paths += src.Paths
	dst.Forks += src.Forks
	dst.Instrs += src.Instrs
	dst.AssertsChecked += src.AssertsChecked
	dst.AssertQueries += src.AssertQueries
	dst.SolverUnknown += src.SolverUnknown
	dst.Infeasible += src.Infeasible
	for k, v := range src.Unsupported {
		dst.Unsupported[k] += v
	}
	for k, v := range src.UnwindFail {
		dst.UnwindFail[k] += v
	}
	for k, v := range src.Funcs {
		dst.Funcs[k] += v
	}
	for k, v := range src.Covers {
		dst.Covers[k] += v
	}
	for k, v := range src.Stubs {
		dst.Stubs[k] += v
	}
}

func newStats() Stats {
	return Stats{Unsupported: map[string]int{}, UnwindFail: map[string]int{}, Funcs: map[string]int{}, Covers: map[string]int{}, Stubs: map[string]int{}}
}

type worker struct {
	e    *Engine
	init *State
	fn   *ssa.Function
}

func newWorker(l *Loaded, spec HarnessSpec, params map[string]int, known map[string]KnownFinding, trace bool) (*worker, error) {
	pkg := l.pkgs[modPath+"/"+spec.Pkg]
	if pkg == nil {
		return nil, fmt.Errorf("package %s not loaded", spec.Pkg)
	}
	fn := pkg.Func(spec.Func)
	if fn == nil {
		return nil, fmt.Errorf("harness %s not found in %s", spec.Func, spec.Pkg)
	}
	cfg := Config{MaxSteps: spec.MaxSteps, Unwind: spec.Unwind, GoPolicy: spec.GoPolicy}
	if cfg.MaxSteps == 0 {
		cfg.MaxSteps = 2000000
	}
	if cfg.Unwind == 0 {
		cfg.Unwind = 200
	}
	e := NewEngine(l.prog, cfg)
	e.harness = spec.Func
	e.params = params
	e.known = known
	e.trace = trace
	s, err := NewZ3(60000)
	if err != nil {
		return nil, err
	}
	e.solver = s
	if os.Getenv("SYMGO_NO_CROSS") == "" {
		if s2, err := NewSolver("z3-new", []string{"-in"}, 60000); err == nil {
			e.solver2 = s2
		}
	}
	st := e.newState()
	e.runInit(st, pkg)
	return &worker{e: e, init: st, fn: fn}, nil
}

func (w *worker) run(prefix []int, splitDepth int) {
	e := w.e
	st := e.cloneState(w.init)
	e.forced = prefix
	e.splitMode = splitDepth > 0
	e.splitDepth = splitDepth
	e.splitOut = nil
	func() {
		defer e.recoverPath(st)
		e.pushFrame(st, w.fn, nil, nil, retTop)
	}()
	e.Run(st)
}

func runHarness(l *Loaded, spec HarnessSpec, tier string, known map[string]KnownFinding, nworkers int, trace bool) (*HarnessResult, error) {
	t0 := time.Now()
	params := map[string]int{}
	for k, v := range spec.Quick {
		params[k] = v
	}
	if tier == "thorough" {
		for k, v := range spec.Thorough {
			params[k] = v
		}
	}
	res := &HarnessResult{Spec: spec, Stats: newStats(), Params: params}
	maxCases := 6
	if tier == "thorough" {
		maxCases = 24
	}
	// splitter: deepen until there are enough independent prefixes for the workers
	var sw *worker
	var err error
	var prefixes [][]int
	depths := []int{0}
	if nworkers > 1 {
		depths = []int{3, 5, 7, 9, 12, 15, 18}
		if spec.Split > 0 {
			depths = []int{spec.Split}
		}
	}
	for _, d := range depths {
		if sw != nil {
			sw.e.solver.Close()
			sw.e.solver2.Close()
		}
		sw, err = newWorker(l, spec, params, known, trace)
		if err != nil {
			return nil, err
		}
		sw.e.wantSamples = 3
		sw.e.rng2 = uint64(seedValue()) + 1
		sw.run(nil, d)
		prefixes = sw.e.splitOut
		if len(prefixes) == 0 || len(prefixes) >= 8*nworkers {
			break
		}
	}
	var mu sync.Mutex
	collect := func(e *Engine) {
		mu.Lock()
		defer mu.Unlock()
		mergeStats(&res.Stats, &e.stats)
		for fn, fi := range e.fninfo {
			if fi.count > 0 && strings.Contains(fn.String(), "cloudwego/hertz") && !strings.Contains(fn.String(), "zzverif") {
				res.Stats.Funcs[fn.String()] += int(fi.count)
			}
		}
		res.SolverQ += e.solver.Queries
		res.SolverSat += e.solver.SatN
		res.SolverUnsat += e.solver.UnsatN
		// unknown answers of the primary solver that the second solver decided are not counted
		// as undecided (e.stats.SolverUnknown counts the verdicts that stayed unknown)
		res.SolverUnknown += e.stats.SolverUnknown
		res.Rescued += e.rescued
		res.SolverTime += e.solver.Time
		res.SolverErrors = append(res.SolverErrors, e.solver.Errors...)
		if e.solver2 != nil {
			res.SolverErrors = append(res.SolverErrors, e.solver2.Errors...)
			res.CrossChecked += e.crossChecked
			res.SolverTime2 += e.solver2.Time
		}
		for _, v := range e.violations {
			dup := false
			for _, o := range res.Violations {
				if o.Kind == v.Kind && o.Name == v.Name && o.Site == v.Site && o.Known == v.Known {
					dup = true
				}
			}
			if !dup {
				res.Violations = append(res.Violations, v)
			}
		}
		for _, ps := range e.pathModels {
			if len(res.Samples) < 6 {
				res.Samples = append(res.Samples, renderSample(e, ps))
			}
			if ps.hasModel && len(res.Cases) < maxCases {
				vc := ValidationCase{Harness: spec.Func, Params: params, Inputs: inputsFromModel(ps.inputs, ps.model, e.ctx)}
				for _, o := range ps.observes {
					vc.Expect = append(vc.Expect, e.renderObserve(o, ps.model))
				}
				res.Cases = append(res.Cases, vc)
			}
		}
	}
	collect(sw.e)
	sw.e.solver.Close()
	sw.e.solver2.Close()
	if len(prefixes) > 0 {
		ch := make(chan []int, len(prefixes))
		for _, p := range prefixes {
			ch <- p
		}
		close(ch)
		var wg sync.WaitGroup
		n := nworkers
		if n > len(prefixes) {
			n = len(prefixes)
		}
		errs := make(chan error, n)
		for i := 0; i < n; i++ {
			wg.Add(1)
			go func() {
				defer wg.Done()
				w, err := newWorker(l, spec, params, known, trace)
				if err != nil {
					errs <- err
					return
				}
				w.e.wantSamples = 2
				w.e.rng2 = uint64(seedValue()) + 77
				for p := range ch {
					if !deadline.IsZero() && time.Now().After(deadline) {
						w.e.stats.Unsupported["wall-clock budget exceeded (exploration incomplete)"]++
						continue
					}
					w.run(p, 0)
				}
				collect(w.e)
				w.e.solver.Close()
				w.e.solver2.Close()
			}()
		}
		wg.Wait()
		select {
		case err := <-errs:
			return nil, err
		default:
		}
	}
	res.Wall = time.Since(t0)
	return res, nil
}

func maxW(w uint8) uint8 {
	if w == 0 {
		return 64
	}
	return w
}

func seedValue() int {
	n, _ := strconv.Atoi(os.Getenv("VERIF_SEED"))
	return n
}

func renderSample(e *Engine, ps pathSample) map[string]interface{} {
	out := map[string]interface{}{}
	memo := map[*Term]uint64{}
	m := ps.model
	if m == nil {
		m = map[string]uint64{}
	}
	for _, in := range ps.inputs {
		switch in.Kind {
		case "bytes":
			b := make([]byte, len(in.Terms))
			for i, t := range in.Terms {
				b[i] = byte(e.ctx.Eval(t, m, memo))
			}
			out[in.Name] = fmt.Sprintf("%q", string(b))
		case "havoc":
			out[in.Name] = fmt.Sprintf("%d havoc'ed leaves", len(in.Terms))
		default:
			out[in.Name] = int64(e.ctx.Eval(in.Terms[0], m, memo))
		}
	}
	if len(ps.covers) > 0 {
		out["_covers"] = ps.covers
	}
	return out
}

// ValidationCase: one passing path, as concrete inputs plus the observations the engine predicts.
type ValidationCase struct {
	Harness string         `json:"harness"`
	Params  map[string]int `json:"params"`
	Inputs  []ReplayInput  `json:"inputs"`
	Expect  []string       `json:"-"`
}

func inputsFromModel(ins []inputRec, model map[string]uint64, ctx *Ctx) []ReplayInput {
	memo := map[*Term]uint64{}
	if model == nil {
		model = map[string]uint64{}
	}
	var out []ReplayInput
	for _, in := range ins {
		ri := ReplayInput{Name: in.Name, Kind: in.Kind}
		switch in.Kind {
		case "bytes":
			ri.Bytes = make([]int, len(in.Terms))
			for i, t := range in.Terms {
				ri.Bytes[i] = int(ctx.Eval(t, model, memo) & 0xff)
			}
		case "havoc":
			for _, t := range in.Terms {
				ri.Ints = append(ri.Ints, sext(ctx.Eval(t, model, memo)&maskB(t.w), maxW(t.w)))
			}
		default:
			val := ctx.Eval(in.Terms[0], model, memo)
			if in.W > 0 && in.W < 64 && in.Kind != "byte" {
				ri.Int = sext(val, in.W)
			} else {
				ri.Int = int64(val)
			}
		}
		out = append(out, ri)
	}
	return out
}

// nativeValidate replays passing paths natively in one `go test` run per package and compares
// the observations (ZZ-OBS lines) and the absence of assertion failures / panics.
func nativeValidate(l *Loaded, pkgRel string, cases []ValidationCase) (validated int, mismatches []string, err error) {
	if len(cases) == 0 {
		return 0, nil, nil
	}
	tmp, err := os.MkdirTemp("", "zzvalidate")
	if err != nil {
		return 0, nil, err
	}
	defer os.RemoveAll(tmp)
	batch := filepath.Join(tmp, "batch.json")
	b, _ := json.Marshal(map[string]interface{}{"cases": cases})
	os.WriteFile(batch, b, 0o644)
	out, err := runNative(l, pkgRel, tmp, []string{"ZZ_REPLAY_BATCH=" + batch})
	if err != nil {
		return 0, nil, err
	}
	parts := strings.Split(out, "ZZ-REPLAY-START ")
	if len(parts)-1 != len(cases) {
		return 0, []string{fmt.Sprintf("native batch ran %d of %d cases: %s", len(parts)-1, len(cases), tail(out, 15))}, nil
	}
	for i, c := range cases {
		sec := parts[i+1]
		var obs []string
		bad := ""
		for _, ln := range strings.Split(sec, "\n") {
			ln = strings.TrimSpace(ln)
			switch {
			case strings.HasPrefix(ln, "ZZ-OBS "):
				obs = append(obs, ln)
			case strings.HasPrefix(ln, "ZZ-ASSERT-FAIL"), strings.HasPrefix(ln, "ZZ-PANIC"), strings.HasPrefix(ln, "ZZ-ASSUME-FAILED"):
				bad = ln
			}
		}
		if bad != "" {
			mismatches = append(mismatches, fmt.Sprintf("%s: engine path passes, native says %q (inputs %v)", c.Harness, bad, c.Inputs))
			continue
		}
		same := len(obs) == len(c.Expect)
		if same {
			for k := range obs {
				if obs[k] != c.Expect[k] {
					same = false
				}
			}
		}
		if !same {
			mismatches = append(mismatches, fmt.Sprintf("%s: observations differ: engine %v native %v", c.Harness, c.Expect, obs))
			continue
		}
		validated++
	}
	return validated, mismatches, nil
}

// runNative builds the package's harnesses natively (overlay, tag verif) and runs TestZZReplay.
func runNative(l *Loaded, pkgRel, tmp string, env []string) (string, error) {
	funcs := l.harnessFuncs(modPath + "/" + pkgRel)
	pkgName := l.pkgs[modPath+"/"+pkgRel].Pkg.Name()
	var sb strings.Builder
	modDir, modPattern, zzImport := moduleOf(pkgRel)
	sb.WriteString("//go:build verif\n\npackage " + pkgName + "\n\nimport (\n\t\"testing\"\n\tzz \"" + zzImport + "\"\n)\n\n")
	sb.WriteString("func TestZZReplay(t *testing.T) {\n\tzz.RunReplay(t, map[string]func(){\n")
	for _, f := range funcs {
		sb.WriteString("\t\t\"" + f + "\": " + f + ",\n")
	}
	sb.WriteString("\t})\n}\n")
	testFile := filepath.Join(tmp, "zz_replay_test.go")
	os.WriteFile(testFile, []byte(sb.String()), 0o644)
	repl := map[string]string{}
	for v, r := range l.ov {
		repl[v] = r
	}
	repl[filepath.Join(repoDir, pkgRel, "zz_verif_replay_test.go")] = testFile
	ovb, _ := json.Marshal(map[string]interface{}{"Replace": repl})
	ovFile := filepath.Join(tmp, "overlay.json")
	os.WriteFile(ovFile, ovb, 0o644)
	cmd := exec.Command("go", "test", "-tags", "verif", "-vet=off", "-count=1", "-overlay", ovFile, "-run", "^TestZZReplay$", "-v", modPattern)
	cmd.Dir = modDir
	cmd.Env = append(goEnv(), env...)
	out, _ := cmd.CombinedOutput()
	s := string(out)
	if !strings.Contains(s, "ZZ-REPLAY-START") {
		return s, fmt.Errorf("native run did not start: %s", tail(s, 20))
	}
	return s, nil
}

// ---------- replay ----------

type ReplayInput struct {
	Name  string  `json:"name"`
	Kind  string  `json:"kind"`
	Bytes []int   `json:"bytes,omitempty"`
	Int   int64   `json:"int"`
	Ints  []int64 `json:"ints,omitempty"`
}

type ReplayFile struct {
	Property string         `json:"property"`
	Harness  string         `json:"harness"`
	Pkg      string         `json:"pkg"`
	Params   map[string]int `json:"params"`
	Inputs   []ReplayInput  `json:"inputs"`
	Kind     string         `json:"kind"`
	Name     string         `json:"name"`
	Site     string         `json:"site"`
	Known    string         `json:"known,omitempty"`
}

func buildReplay(prop string, spec HarnessSpec, params map[string]int, v *Violation) *ReplayFile {
	rf := &ReplayFile{Property: prop, Harness: spec.Func, Pkg: spec.Pkg, Params: params, Kind: v.Kind, Name: v.Name, Site: v.Site, Known: v.Known}
	ctx := NewCtx()
	_ = ctx
	for _, in := range v.Inputs {
		ri := ReplayInput{Name: in.Name, Kind: in.Kind}
		switch in.Kind {
		case "bytes":
			ri.Bytes = make([]int, len(in.Terms))
			for i, t := range in.Terms {
				ri.Bytes[i] = int(v.Model[t.name] & 0xff)
			}
		case "havoc":
			for _, t := range in.Terms {
				ri.Ints = append(ri.Ints, sext(v.Model[t.name]&maskB(t.w), maxW(t.w)))
			}
		default:
			val := v.Model[in.Terms[0].name]
			if in.W > 0 && in.W < 64 {
				ri.Int = sext(val, in.W)
				if in.Kind == "byte" {
					ri.Int = int64(val & 0xff)
				}
			} else {
				ri.Int = int64(val)
			}
		}
		rf.Inputs = append(rf.Inputs, ri)
	}
	return rf
}

// nativeReplay builds the harness natively (overlay, tag verif) and runs it on the replay file.
// It returns the lines printed by the zzverif runtime.
func nativeReplay(l *Loaded, rf *ReplayFile, path string) (reproduced bool, output string, err error) {
	tmp, err := os.MkdirTemp("", "zzreplay")
	if err != nil {
		return false, "", err
	}
	defer os.RemoveAll(tmp)
	output, err = runNative(l, rf.Pkg, tmp, []string{"ZZ_REPLAY=" + path})
	if err != nil {
		return false, output, err
	}
	switch rf.Kind {
	case "assert":
		reproduced = strings.Contains(output, "ZZ-ASSERT-FAIL "+rf.Name+"\n")
	case "panic":
		reproduced = strings.Contains(output, "ZZ-PANIC ")
	}
	return reproduced, output, nil
}

// ---------- evidence ----------

type Evidence struct {
	PropertyID  string                 `json:"property_id"`
	Tier        string                 `json:"tier"`
	Seed        int                    `json:"seed"`
	Level       string                 `json:"level"`
	Coverage    map[string]interface{} `json:"coverage"`
	Assumptions []string               `json:"assumptions"`
	WallS       float64                `json:"wall_s"`
	Violations  int                    `json:"violations"`
}

func topFuncs(m map[string]int, n int) []string {
	type kv struct {
		k string
		v int
	}
	var l []kv
	for k, v := range m {
		l = append(l, kv{k, v})
	}
	sort.Slice(l, func(i, j int) bool { return l[i].v > l[j].v || (l[i].v == l[j].v && l[i].k < l[j].k) })
	var out []string
	for i, x := range l {
		if i >= n {
			break
		}
		out = append(out, fmt.Sprintf("%s:%d", x.k, x.v))
	}
	return out
}

var _ = runtime.NumCPU
