#!/bin/bash
# usage: store_seed.sh <property id> <mut index in /tmp/wt/<id>/zz_mut> <seed number> <detection> <detected_by text>
# Copies a confirmed sub-agent change into /verif/seeded/<id>-<n>/ with its meta.json.
ID=$1; M=$2; N=$3; DET=$4; BY=$5
src=/tmp/wt/$ID/zz_mut; dst=/verif/seeded/$ID-$N
mkdir -p $dst
cp $src/mut$M.diff $dst/patch.diff
cp $src/mut${M}_demo_test.go.txt $dst/demo_test.go.txt
cp $src/mut$M.md $dst/description.md 2>/dev/null
res=$(grep RESULT /tmp/wt/confirm_${ID}_$M.log | tail -1)
head=$(git -C /tmp/wt/$ID rev-parse --short HEAD)
need=$(grep -i -m1 -A2 "trigger\|manifest" $src/mut$M.md | tr '\n' ' ' | cut -c1-300)
python3 - "$ID" "$N" "$res" "$DET" "$BY" "$head" "$need" > $dst/meta.json <<'PY'
import json,sys,os
ID,N,res,det,by,head,need=sys.argv[1:8]
print(json.dumps({
 "property": ID, "seed": f"{ID}-{N}",
 "origin": "fresh sub-agent (round " + os.environ.get("ROUND","3") + f") given only the property text and its own git worktree of /repo at commit {head}",
 "needs_to_manifest": need,
 "confirmed_by_me": "tools/confirm_seed.sh in the scratch worktree: (a) go build ./..., (b) go test ./pkg/... ./internal/... with the change, (c) demo fails with the change, (d) demo passes without it",
 "confirm_result": res, "confirm_note": "",
 "detection": det, "detected_by": by,
 "how_to_rerun": f"tools/try_seed.sh {ID} seeded/{ID}-{N}/patch.diff"}, indent=1))
PY
echo stored $dst
