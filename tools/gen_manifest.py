#!/usr/bin/env python3
"""Regenerates MANIFEST.json from the table below (kept next to the property specs in engine/props.go)."""
import json, os
HERE = os.path.dirname(os.path.dirname(os.path.abspath(__file__)))

TECH = "bounded symbolic execution of the real Go code (go/ssa -> SMT-LIB bit-vectors), z3 decides every assertion/panic/branch; counterexamples replayed natively"

CHECKS = {
 "C07": dict(
   text="For every byte string up to the stated length (all 256 byte values at every position) the real normalizePath / decodeArgAppendNoPlus / CleanPath, executed symbolically from go/ssa, satisfy the containment predicate and equal an independent decode-then-stack reference; z3 finds no counterexample within the bound. Bounded model checking, not a proof: longer inputs are outside the claim.",
   note="trusted: go/ssa lowering, the engine's instruction semantics (counterexamples must replay natively), z3 4.8.12, the 40-line reference in the harness; bounds: quick N<=6/7/5 bytes, thorough 9/10/7",
   ref="DESIGN.md §4 C07"),
}

NOT_APPLICABLE = {
 "C15": "binding is assembled through reflect/unsafe/sonic at run time and its statement includes concurrent first use; none of that is encodable by an SSA->SMT executor (DESIGN.md §5)",
 "C16": "the subject is the meaning of Go source emitted by text/template + go/format in a separate module; its semantics exist only after compiling the output (DESIGN.md §5)",
}

PENDING = "check not built yet in this revision (see DESIGN.md §7 build order); not claimed"

def main():
    props = [json.loads(l)["id"] for l in open(os.path.join(HERE, "properties.jsonl"))]
    checks = []
    for pid in props:
        if pid not in CHECKS:
            continue
        c = CHECKS[pid]
        checks.append({
            "property_id": pid,
            "quick_cmd": f"bin/check {pid} --tier quick",
            "thorough_cmd": f"bin/check {pid} --tier thorough",
            "evidence_file": f"/verif/evidence/{pid}.json",
            "replay_cmd_template": "bin/symgo replay {path}",
            "engine": "symgo",
            "level_claimed": {"category": "model_checking", "text": c["text"], "design_ref": c["ref"]},
            "level_note": c["note"],
            "technique": TECH,
        })
    na = []
    for pid in props:
        if pid in CHECKS:
            continue
        na.append({"property_id": pid, "reason": NOT_APPLICABLE.get(pid, PENDING)})
    m = {
        "version": 1,
        "setup_cmd": "cd /verif/engine && GOFLAGS=-mod=mod GOPROXY=off GOSUMDB=off GOTOOLCHAIN=local go build -o /verif/bin/symgo .",
        "hooks": {
            "guard": "verif",
            "enable": "harness files and the intrinsics package are injected at load/replay time with go/packages Overlay and `go test -tags verif -overlay`; no file under /repo is changed",
            "baseline_off_cmd": "cd /repo && GOFLAGS=-mod=mod GOPROXY=off GOSUMDB=off MOCKEY_CHECK_GCFLAGS=false go test -vet=off -count=1 -timeout 25m ./...",
            "source_commits": [],
            "add_only": True,
        },
        "engines": [{
            "name": "symgo", "path": "/verif/engine",
            "serves_properties": [c["property_id"] for c in checks],
            "kind_free_text": "own symbolic executor for Go: go/ssa instructions of the real functions -> bit-vector SMT terms, forking DFS with z3 -in (push/pop), native replay of every counterexample",
        }],
        "checks": checks,
        "not_applicable": na,
        "notes": "exit 0 = all paths within bounds explored, no violation; exit 1 = natively reproduced counterexample (VIOLATION line); exit 2 = inconclusive (unsupported path, unwind bound hit, solver unknown, or unconfirmed counterexample) - never reported as a pass",
    }
    json.dump(m, open(os.path.join(HERE, "MANIFEST.json"), "w"), indent=1)
    print("wrote MANIFEST.json with", len(checks), "checks,", len(na), "not_applicable")

main()
