#!/usr/bin/env python3
"""Regenerates MANIFEST.json from the table below (kept next to the property specs in engine/props.go)."""
import json, os
HERE = os.path.dirname(os.path.dirname(os.path.abspath(__file__)))

TECH = "bounded symbolic execution of the real Go code (go/ssa -> SMT-LIB bit-vectors), z3 decides every assertion/panic/branch; counterexamples replayed natively"

CHECKS = {
 "C10": dict(
   text="Sequential clauses of C10 only: the real HostClient.Do / do / doNonNilReqResp / acquireConn / releaseConn / closeConn / decConnsCount run from SSA for every history of M calls against a scripted peer over every fault sequence (7 peer outcomes x GET/POST x context cancelled or not x MaxConns 1..2 x MaxConnDuration expired or not): the response returned belongs to the caller's request, the per-host count equals the open connections, never exceeds MaxConns and equals the idle list once the call returned, a connection carries a second request only after a clean exchange that did not ask to close, the pending-request gauge returns to zero, and a POST is sent at most once. Interleavings of concurrent callers, the waiter queue, real timeouts and timing bounds are not addressed.",
   note="narrowed claim (DESIGN.md §4 C10): no scheduler and no real time in the encoding; the reaper goroutine is skipped",
   ref="DESIGN.md §4 C10"),
 "C20": dict(
   text="Parser/evaluator kernel only: for every chain of up to K binary operators (all 13) over literal numeric operands (including 0, so NaN arises), with one optional parenthesised group and two spacings, the real parseExpr + sortPriority rotation + operator Run (executed from SSA, including Go's regexp lexers) yields the value a reference precedence-climbing evaluator computes with the documented table and left associativity; no panic. Further harnesses: in()/len() arguments, current-field references with injected values (nil, numbers, booleans, strings, slices), parenthesis-free runs of 4-5 operators, regexp() on literals, runs of unary minus, comparison operators on string operands (literals and symbolic letters). Reflect-based struct walking, sub-selectors, maps and the binding.Validate entry are not addressed.",
   note="narrowed claim (DESIGN.md §4 C20): interpreter kernel; expressions are concrete choices except the symbolic letters of H7 (float arithmetic is kept out of the solver); values the documentation does not fix are only required not to panic",
   ref="DESIGN.md §4 C20"),
 "C09": dict(
   text="Sequential recycling only: inside the real Serve keep-alive loop, request 1 is handled by a handler that applies a symbolic choice of one or two mutators (41 exported mutators of RequestContext/Request/Response/headers/URI, symbolic argument byte, optionally a recovered panic); request 2 is a fixed probe whose full observable state (about 40 getters, header/cookie/arg visits, flags) and response bytes are compared with those of a fresh connection using fresh objects; z3 is asked whether they can differ. A pooled body stream reused on another connection after a failed release is covered by ZZ_C14_H2. Cross-goroutine pool migration and data races are outside this technique.",
   note="mutator list and dump are hand-written (a field reachable only through an unlisted API is not covered); sync.Pool modelled as LIFO; Acquire/Release of stand-alone Request/Response/URI/Cookie/Args values covered when ZZ_C09_H2 is listed",
   ref="DESIGN.md §4 C09"),
 "C13": dict(
   text="The real standard.Conn (Peek/peekBuffer/Skip/Release/handleTail/fill/Read/next/ReadByte/ReadBinary/Len, Malloc/WriteBinary/Flush, linkBufferNode) is executed from SSA against a byte-queue model for every operation sequence of length K over the seven reader operations (three writer operations) with sizes in windows around 1, 1 KiB, 4 KiB and 8 KiB and four input fragmentations: bytes observed equal the wire at the model cursor (symbolic bytes at node boundaries), Len equals buffered-minus-consumed, every Peek slice is re-read after each later operation until the next Release, and after Flush the peer holds exactly the concatenation written. mcache/sync.Pool re-issue freed blocks so premature release is visible. Also: end of input at any point (H3), the > 512 KiB regime (BIG), ReadBinary results re-checked after Release, and ReadFrom after pending output (RF).",
   note="K=2 (reader) / 3 (writer) in quick, 3/4 in thorough - far below the property's 60..200; sizes are concrete choices; TLS and read/write errors other than end of input outside",
   ref="DESIGN.md §4 C13"),
 "C04": dict(
   text="Handler programs over {9 status codes} x {no body, SetBody, AppendBody x2, SetBodyStream with known length / -1 / LimitedReader, hijacked chunked writer with and without intermediate flush} x {status before/after the body call} x {Connection: close} x {GET, HEAD} (thorough: two in sequence on one connection), with symbolic body bytes, run inside the real Serve loop; the bytes written are decoded by an independent strict response reader and z3 is asked whether status, body bytes, framing or the position where the next response starts can differ from what the handler produced, and whether bodiless responses can carry body bytes or chunked framing.",
   note="bodies <= 3 bytes (flush thresholds not exercised); strict reader is the harness's own decoder; Date/Server headers disabled",
   ref="DESIGN.md §4 C04"),
 "C11": dict(
   text="(H1) requests built through the client API - method, symbolic path/query/header-value/body bytes, body as bytes, stream of known length, stream of unknown length (chunked) - are serialised by the real req.Write and decoded by the real hertz server loop; z3 is asked whether method, path, query argument, Host, header field or body can differ, or the pipelined sentinel can fail to be handled. (H2) the real response reader (buffered and streaming) on six response shapes with symbolic body and header bytes returns the same status, field and body, enforces MaxResponseBodySize in buffered mode, leaves the next response intact, and is independent of a split point ranging over every position.",
   note="one open known finding (streaming prefetch reading into the next response when 0 < MaxResponseBodySize < Content-Length); multipart/form bodies, proxy form and HostClient.Do plumbing outside; small bounds (1-2 symbolic bytes per component in quick)",
   ref="DESIGN.md §4 C11"),
 "C06": dict(
   text="The real radix tree (addRoute/insert/find with backtracking) is built for each of 12 route sets in every registration order and queried with a symbolic request path ('/' + every byte string up to N bytes); z3 is asked whether the chosen route, the parameter values or the full path can differ from a 40-line reference implementing 'static > :param > *catch-all at the first point of difference, with backtracking', or whether a handler is returned when the reference finds none.",
   note="route sets are a fixed catalogue (not symbolic); raw-path unescaping and redirect lookups are outside; bounds quick N<=6, thorough N<=9",
   ref="DESIGN.md §4 C06"),
 "C12": dict(
   text="The real RequestContext.Next/Abort/AbortWithStatus (int8 index arithmetic bit-precise) run on chains of up to N handlers whose behaviours are symbolic bytes over the seven behaviours of the property; a trace monitor checks enter-once-in-order, nothing entered after Abort, and code after Next running only after later handlers returned. Engine/group assembly (Use before/after registration, nesting depth <= 2, matched / not-found / wrong-method requests) is checked through the real Engine.ServeHTTP.",
   note="chains N<=5 quick / 7 thorough; nesting depth 2; Engine constructed in-package without a transport",
   ref="DESIGN.md §4 C12"),
 "C14": dict(
   text="Real ReadBodyStream/bodyStream.Read/skipRest/ReleaseBodyStream inside the real Serve loop over the real standard.Conn, with symbolic body bytes and every consumption program within the bounds (0..R reads with buffer sizes from {0,1,3,16}, stop anywhere), fixed-length (with prefetch limits 0/1/3) and chunked bodies, delivered whole or byte-wise, followed by a pipelined sentinel: bytes read are a prefix of the body, EOF only at its end, no network read beyond the body while streaming, the sentinel is parsed from the first byte after the body, and exactly one well-formed response per handled request.",
   note="one open known finding (prefetch swallowing pipelined bytes when 0 < MaxRequestBodySize < Content-Length) is reported as KNOWN-FINDING; small-body regime only",
   ref="DESIGN.md §4 C14"),
 "C18": dict(
   text="Only the sequential clauses of C18 (two fixed goroutine schedules) are decided by this technique: with the engine's running flag turning false at a symbolic request index, the real Serve loop completes that request's response with Connection: close, handles nothing afterwards and returns errShortConnection; and Engine.Shutdown from every status value touches the transport and the hooks exactly once when running and reports an error otherwise (goroutines under two fixed schedules: as early / as late as possible); the transport is asked to close its listener without waiting for slow hooks (modelled clock); the real standard transport's Shutdown closes the listener once and before it waits for active connections, returns nil when they are gone and the context error at the caller's deadline (ticker on the modelled clock); and the wait bound on the modelled clock (ZZ_C18_H5: exit wait 1 s, drain 0/400/800 ms or until the deadline, hook fast / until its context is done / never returning, caller context live or cancelled; context timers fire in deadline order when nothing else can happen): Shutdown returns within the exit wait plus 0.3 s. Hooks overlapping in time, the accept loop's accounting against a concurrent Shutdown and netpoll's transport are not addressed (no scheduler in the encoding).",
   note="narrowed claim (DESIGN.md §4 C18); the rest of C18 is outside solver-based checking of sequential code",
   ref="DESIGN.md §4 C18"),
 "C19": dict(
   text="The whole real Server.Serve with its deferred epilogue, the real stats.Controller and traceinfo are executed from SSA for every history within the bounds: k<=2 template requests, handler outcome (ok / Connection: close / recovered panic), truncation of the stream at every byte position, one I/O fault at a symbolic operation index (read or write side), keep-alive on/off, idle timeout zero/non-zero, streaming on/off, a ContinueHandler that declines Expect: 100-continue, malformed header blocks, bodies refused as too large, hijack; three requests per connection in H3. The tracer log must alternate start/finish, each handled request must be bracketed by its own pair, and stage events must be ordered with every started stage finished.",
   note="histories are finite choices (the fault index is a symbolic integer decided lazily by z3); request bytes concrete; clock stub monotone; netpoll's poller mode only as IdleTimeout==0",
   ref="DESIGN.md §4 C19"),
 "C01": dict(
   text="The real header reader, body readers and Server.Serve loop run symbolically over the real standard.Conn: (H1) every 14/17-byte header name (all byte values; with key normalising on, every 2-byte window of the canonical name in quick, all bytes in thorough) influences framing iff it equals Content-Length/Transfer-Encoding ignoring ASCII case; (H2) every spelling of the Content-Length value up to D bytes either frames exactly v symbolic body bytes and leaves the next request intact, or is refused with one 400 + Connection: close and no handler; (H3) chunked bodies with symbolic size spellings and payload bytes deliver the concatenation and resume at the next request; (H4) k pipelined template requests are handled once each, in order, with one response each.",
   note="transport = real standard.Conn over a harness net.Conn (netpoll outside); small bodies; templates for H4 are concrete (the solver ranges over choices and fragment size there); bounds in evidence",
   ref="DESIGN.md §4 C01"),
 "C02": dict(
   text="For nine message streams (obs-folded header + body + pipelined request, chunked with trailer, plain pipelining, a header area with two symbolic structural bytes, folded trailers, Expect: 100-continue, an unfinished follow-up, ...), the real Serve loop over the real standard.Conn is run twice per path - whole, and cut at a split point ranging over every position (thorough: every pair) - and z3 is asked whether handler-visible requests or response bytes can differ.",
   note="the split point is a concrete choice per path, the structural bytes are symbolic; client direction through ZZ_C11_H2 (response reader, every split point and byte-at-a-time); nine stream templates by now",
   ref="DESIGN.md §4 C02"),
 "C07": dict(
   text="For every byte string up to the stated length (all 256 byte values at every position) the real normalizePath / decodeArgAppendNoPlus / CleanPath, executed symbolically from go/ssa, satisfy the containment predicate and equal an independent decode-then-stack reference; z3 finds no counterexample within the bound. Bounded model checking, not a proof: longer inputs are outside the claim.",
   note="trusted: go/ssa lowering, the engine's instruction semantics (counterexamples must replay natively), z3 4.8.12, the 40-line reference in the harness; bounds: quick N<=6/7/5 bytes, thorough 9/10/7",
   ref="DESIGN.md §4 C07"),
 "C08": dict(
   text="The byte-range arithmetic of the static file handler: the real ParseByteRange (with ParseUint/ParseUintBuf) is executed symbolically for every range text up to N bytes (all byte values) against every non-negative 64-bit content length; z3 shows err==nil iff RFC 7233 says satisfiable, 0<=start<=end<len, and equality with a reference resolver. The request handler itself runs on cached in-memory entries (H3) and over a directory tree (FS, GZ): the os entry points fs.go uses are redirected to an in-memory tree written in Go and executed from SSA (natively the same harness uses a real temporary directory, compared on sampled paths): small/big/empty files, index file, generated index, missing and traversal targets, GET/HEAD, range forms, two requests per handler, and the Compress option with existing fresh twins. P: exactly the selected bytes of the right file with consistent Content-Length/Content-Range/Content-Encoding, 404/403/416, nothing outside the root.",
   note="trusted: reference resolver in harness/pkg/app/c08.go and the 300-line in-memory tree harness/zzverif/memfs.go; creating compressed twins (gzip writer), cache expiry, If-Modified-Since, symlinks and permissions outside; bounds in evidence",
   ref="DESIGN.md §4 C08"),
 "C03": dict(
   text="No-panic for the exported parsers of untrusted data (URI.Parse, Args.ParseBytes, Cookie.ParseBytes incl. attribute switch, request cookies, Trailer.SetTrailers, multipart boundary, ParseUint) on fully symbolic input up to the stated lengths: every Go run-time check (index, slice bounds, nil deref, division) on every path is an implicit assertion discharged by z3. Server read-path clauses (clean 4xx, no handler, Connection: close) are covered by the Serve harnesses when listed in evidence.",
   note="time.Parse is an opaque nondeterministic stub; multipart body parsing and date parsing are outside; bounds per harness in evidence",
   ref="DESIGN.md §4 C03"),
 "C05": dict(
   text="For each listed header-writing entry point of RequestHeader, ResponseHeader, Cookie and Trailer, with every byte value at every position of key/value within the bounds, the serialised header block read back by a strict line reader has no bare CR/LF, no more lines than the same call with a harmless value, and only token-named lines; plus the appendHeaderLine choke-point lemma.",
   note="entry points are hand-listed in harness/pkg/protocol/c05.go; request method/target are not in the property's list; bounds quick key<=2 value<=3 bytes",
   ref="DESIGN.md §4 C05"),
 "C17": dict(
   text="Round-trip of the query-argument and path codecs on every byte string within the bound, agreement of decodeArgAppend with a reference implementing net/url.QueryUnescape's rule on every accepted string, ordered two-pair argument list parse(print)=id and print fixed point, and response-cookie ParseBytes(AppendBytes)=id over all attribute combinations; all decided by z3 on the SSA-derived encoding.",
   note="cookie expires/time formatting excluded; max-age over 5 representative values; URI FullURI fixed point not yet covered; bounds in evidence",
   ref="DESIGN.md §4 C17"),
}

CHECKS["C16"] = dict(
   text="Narrowed: the router tree the hz generator builds from a declared (verb, path, handler name) set - RouterNode.Update/Insert/FindNearest/Sort, DyeGroupName and the identifier mangling in util (ToVarName, ToGoFuncName, GetMiddlewareUniqueName) - is executed from SSA (second Go module cmd/hz) for every set of up to 2 routes of up to D segments (and every set of exactly 3 routes over a smaller alphabet) over an alphabet with parameters, a catch-all, segments colliding after mangling, trailing slash and root path, verbs GET/POST/Any, router sorting on/off. The tree is then read through a hand-written interpreter of the router.go/middleware.go templates (Go block scoping of := variables, hertz path joining): every group variable declared before use, none declared twice in a block, none unused, valid and distinct identifiers, and exactly the declared (verb, path) set registered, each with its handler inside the groups of its path prefixes. ZZ_C16_H8 also renders the current text of sub-templates G and M through an interpreter of the text/template subset they use and reads the emitted statements back: expected statement shapes, declared-before-use, registrations == declared set, every middleware function called is defined exactly once, and agreement with the structural reading.",
   note="the text/template package is not executed: the two router sub-templates (G in router.go, M in middleware.go) are run on their current text by a subset interpreter in the harness (ZZ_C16_H8; its native twin demands byte-identical output from the real text/template), the file-level text around them (package clause, imports) is not read; the IDL front ends, go/format, file output and the update of an existing router file are outside; for snake-style names DyeGroupName(true) and appendMw are real and the loop of genRouter that connects them is repeated in the harness; route sets are concrete choices; the interpreter was validated once against the real templates + go compiler on 684 route sets (tools/c16_validate.sh)",
   ref="DESIGN.md §4 C16")

NOT_APPLICABLE = {
 "C15": "binding is assembled through reflect/unsafe/sonic at run time and its statement includes concurrent first use; none of that is encodable by an SSA->SMT executor (DESIGN.md §5)",
}

PENDING = "check not built yet in this revision (see DESIGN.md §7 build order); not claimed"

def main():
    props = [json.loads(l)["id"] for l in open(os.path.join(HERE, "properties.jsonl"))]
    checks = []
    for pid in props:
        if pid not in CHECKS:
            continue
        c = CHECKS[pid]
        checks.append({
            "property_id": pid,
            "quick_cmd": f"bin/check {pid} --tier quick",
            "thorough_cmd": f"bin/check {pid} --tier thorough",
            "evidence_file": f"/verif/evidence/{pid}.json",
            "replay_cmd_template": "bin/symgo replay {path}",
            "engine": "symgo",
            "level_claimed": {"category": "model_checking", "text": c["text"], "design_ref": c["ref"]},
            "level_note": c["note"],
            "technique": TECH,
        })
    na = []
    for pid in props:
        if pid in CHECKS:
            continue
        na.append({"property_id": pid, "reason": NOT_APPLICABLE.get(pid, PENDING)})
    m = {
        "version": 1,
        "setup_cmd": "cd /verif/engine && GOFLAGS=-mod=mod GOPROXY=off GOSUMDB=off GOTOOLCHAIN=local go build -o /verif/bin/symgo .",
        "hooks": {
            "guard": "verif",
            "enable": "harness files and the intrinsics package are injected at load/replay time with go/packages Overlay and `go test -tags verif -overlay`; no file under /repo is changed",
            "baseline_off_cmd": "cd /repo && GOFLAGS=-mod=mod GOPROXY=off GOSUMDB=off MOCKEY_CHECK_GCFLAGS=false go test -vet=off -count=1 -timeout 25m ./...",
            "source_commits": [],
            "add_only": True,
        },
        "engines": [{
            "name": "symgo", "path": "/verif/engine",
            "serves_properties": [c["property_id"] for c in checks],
            "kind_free_text": "own symbolic executor for Go: go/ssa instructions of the real functions -> bit-vector SMT terms, forking DFS with z3 -in (push/pop), native replay of every counterexample",
        }],
        "checks": checks,
        "not_applicable": na,
        "notes": "exit 0 = all paths within bounds explored, no violation; exit 1 = natively reproduced counterexample (VIOLATION line); exit 2 = inconclusive (unsupported path, unwind bound hit, solver unknown, or unconfirmed counterexample) - never reported as a pass",
    }
    json.dump(m, open(os.path.join(HERE, "MANIFEST.json"), "w"), indent=1)
    print("wrote MANIFEST.json with", len(checks), "checks,", len(na), "not_applicable")

main()
