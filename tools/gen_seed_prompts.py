#!/usr/bin/env python3
"""Writes /tmp/wt/prompt<round>_<ID>.txt for a new seeding round: the previous round's prompt with the
list of already-used triggers replaced by the triggers of every stored seed (from the tables in
DESIGN.md section 8). Nothing from /verif other than those one-line trigger descriptions is given
to the sub-agents."""
import re, sys, glob, os
rnd = sys.argv[1]
prev = sys.argv[2] if len(sys.argv) > 2 else '3'
design = open('/verif/DESIGN.md').read()
sec = design[design.index('## 8. Seeded changes'):design.index('## 9. Honest limits')]
trig = {}
for line in sec.splitlines():
    m = re.match(r'\| (C\d\d)-([\d/]+) \| (.*?) \| (.*) \|$', line)
    if not m:
        continue
    trig.setdefault(m.group(1), []).append(m.group(3).replace('`', ''))
for f in sorted(glob.glob(f'/tmp/wt/prompt{prev}_C*.txt')):
    pid = re.search(r'_(C\d\d)\.txt', f).group(1)
    s = open(f).read()
    if 'Other people have already produced' not in s:
        continue
    a = s.index('Other people have already produced')
    b = s.index('Prefer parts of the property')
    lst = ''.join(f'  - {t}\n' for t in trig.get(pid, []))
    s = s[:a] + ("Other people have already produced mutations that manifest under the following conditions; "
                 "yours must be DIFFERENT from these (different code site and different trigger):\n" + lst) + s[b:]
    open(f'/tmp/wt/prompt{rnd}_{pid}.txt', 'w').write(s)
    print(pid, len(trig.get(pid, [])))
