#!/bin/bash
# One-off validation of the template interpreter in harness/cmd/hz/generator/c16.go (not a
# registered check): for a few hundred route sets the REAL router.go/middleware.go templates are
# rendered from the tree, compiled against a 60-line stand-in for hertz's server package and run;
# whether the text compiles and which (verb, path, group chain) it registers must agree with
# what the interpreter says. Optional argument: a patch to apply to the generator first (to see
# the "does not compile" side agree as well). Works in scratch directories under /tmp only.
set -e
HERE=$(cd "$(dirname "$0")/.." && pwd)
export GOFLAGS=-mod=mod GOPROXY=off GOSUMDB=off GOTOOLCHAIN=local GOWORK=off
W=/tmp/c16val-wt; V=/tmp/c16val
rm -rf $V; git -C /repo worktree remove --force $W 2>/dev/null || true
git -C /repo worktree add --detach $W HEAD >/dev/null
trap 'git -C /repo worktree remove --force $W; git -C /repo worktree prune' EXIT
[ -n "$1" ] && git -C $W apply "$1"
mkdir -p $V/hertz/pkg/app/server $V/prog
printf 'module github.com/cloudwego/hertz\n\ngo 1.16\n' > $V/hertz/go.mod
printf 'package app\n\ntype HandlerFunc func()\n' > $V/hertz/pkg/app/app.go
cp $HERE/tools/c16val/server.go.txt $V/hertz/pkg/app/server/server.go
python3 - "$HERE" "$W" <<'PY'
import sys
here,w=sys.argv[1:3]
src=open(here+'/harness/cmd/hz/generator/c16.go').read()
interp=src[src.index('type zzDecl struct'):src.index('var zzSegs')]+src[src.index('// groupPath is the full path'):]
t=open(here+'/tools/c16val/cases_test.go.txt').read().replace('//INTERPRETER//',interp)
open(w+'/cmd/hz/generator/zz_c16val_test.go','w').write(t)
PY
(cd $W/cmd/hz && C16VAL_OUT=$V/prog go test -vet=off -count=1 -run TestC16Val ./generator | tail -1)
cd $V/prog
for d in case*; do $HERE/tools/c16val/run1.sh $d; done | cut -c1-80 | sort | uniq -c | sort -rn
