#!/bin/bash
# usage: confirm_seed.sh <worktree> <mut.diff> <demo_test.go.txt>
# Confirms in a scratch worktree that a seeded change (a) builds, (b) passes the existing tests,
# (c) fails its demonstration, (d) the demonstration passes without it.
export GOFLAGS=-mod=mod GOPROXY=off GOSUMDB=off GOTOOLCHAIN=local MOCKEY_CHECK_GCFLAGS=false
WT=$1; DIFF=$2; DEMO=$3
cd "$WT" || exit 2
git checkout -q -- . || exit 2
first=$(head -1 "$DEMO")
tok=$(echo "$first" | grep -o '\(pkg\|internal\)/[A-Za-z0-9_/.]*' | head -1)
case "$tok" in *.go) dir=$(dirname "$tok");; *) dir=${tok%/};; esac
[ -d "$dir" ] || { echo "cannot determine demo dir from: $first"; exit 2; }
name=zz_seed_demo_test.go
cp "$DEMO" "$dir/$name"
echo "demo dir: $dir"
echo "== (d) demo without change"
timeout 600 go test -vet=off -count=1 -run 'Mut|Demo|Seed|ZZ|Zz' ./$dir/ > /tmp/seed_d.log 2>&1; d=$?
tail -3 /tmp/seed_d.log
git apply "$DIFF" || { echo "diff does not apply"; rm -f "$dir/$name"; exit 2; }
echo "== (a) build"
timeout 600 go build ./... ; a=$?
echo "== (c) demo with change"
timeout 600 go test -vet=off -count=1 -run 'Mut|Demo|Seed|ZZ|Zz' ./$dir/ > /tmp/seed_c.log 2>&1; c=$?
tail -5 /tmp/seed_c.log
rm -f "$dir/$name"
echo "== (b) existing tests with change"
timeout 1500 go test -vet=off -count=1 ./pkg/... ./internal/... > /tmp/seed_b.log 2>&1; b=$?
grep -v "^ok\|no test files" /tmp/seed_b.log | tail -5
git checkout -q -- .
echo "RESULT build=$a existing_tests=$b demo_with=$c demo_without=$d"
if [ $a -eq 0 ] && [ $b -eq 0 ] && [ $c -ne 0 ] && [ $d -eq 0 ]; then echo CONFIRMED; exit 0; fi
echo NOT-CONFIRMED; exit 1
