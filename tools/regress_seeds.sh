#!/bin/bash
# Re-runs every stored seed against the quick check of its property and prints one line per seed:
#   <seed> expected=<detection in meta.json> now=<caught|missed|n/a (patch does not apply)>
cd "$(dirname "$0")/.."
for d in seeded/*/; do
  s=$(basename $d); id=${s%-*}
  [ -n "$1" ] && [[ ! " $* " =~ " $id " ]] && continue
  exp=$(python3 -c "import json;print(json.load(open('$d/meta.json'))['detection'])")
  # the check named in how_to_rerun (a few changes are reported by a sibling property's check)
  cid=$(python3 -c "import json,re;m=re.search(r'try_seed.sh (C\d\d) ',json.load(open('$d/meta.json')).get('how_to_rerun',''));print(m.group(1) if m else '$id')")
  out=$(tools/try_seed.sh $cid $d/patch.diff 2>&1)
  if echo "$out" | grep -q "does not apply"; then now="n/a"
  elif echo "$out" | grep -q "^VIOLATION"; then now="caught"
  elif echo "$out" | grep -q "check exit=0"; then now="missed"
  else now="other($(echo "$out" | grep 'check exit' ))"; fi
  echo "$s expected=\"$exp\" now=$now"
done
