#!/bin/bash
# runs every registered quick (or $1) check and prints one line per property
TIER=${1:-quick}
cd /verif
for id in $(python3 -c "import json;print(' '.join(c['property_id'] for c in json.load(open('MANIFEST.json'))['checks']))"); do
  s=$(date +%s)
  out=$(bin/check $id --tier $TIER 2>&1)
  rc=$?
  e=$(date +%s)
  echo "$id rc=$rc $((e-s))s $(echo "$out" | grep -c '^KNOWN-FINDING') known; $(echo "$out" | grep 'VIOLATION\|INCONCLUSIVE\|UNCONFIRMED' | head -2 | tr '\n' ' ')"
done
