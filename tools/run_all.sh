#!/bin/bash
# runs every registered quick (or $1) check and prints one line per property, followed by the
# per-harness statistics and anything that is not a pass
TIER=${1:-quick}
shift
cd "$(dirname "$0")/.."
IDS="$@"
[ -n "$IDS" ] || IDS=$(python3 -c "import json;print(' '.join(c['property_id'] for c in json.load(open('MANIFEST.json'))['checks']))")
for id in $IDS; do
  s=$(date +%s)
  out=$(bin/check $id --tier $TIER 2>&1)
  rc=$?
  e=$(date +%s)
  echo "$id rc=$rc $((e-s))s $(echo "$out" | grep -c '^KNOWN-FINDING') known; $(echo "$out" | grep 'VIOLATION\|INCONCLUSIVE\|UNCONFIRMED' | head -2 | tr '\n' ' ')"
  echo "$out" | grep '^harness \|UNSUPPORTED\|UNREACHED\|unwind\|budget\|native validation' | cut -c1-260 | sed 's/^/    /'
done
