#!/bin/bash
# usage: try_seed.sh <property id> <diff> [tier]
# Runs the property's check against a seeded change WITHOUT touching /repo: the change is applied
# to a scratch worktree of /repo's HEAD (SYMGO_REPO), evidence and replays go to a scratch
# directory (SYMGO_OUT). Equivalent to `git -C /repo apply <diff>; bin/check <id>; git -C /repo
# checkout -- .`, but safe to use while other checks are reading /repo.
ID=$1; DIFF=$(realpath "$2"); TIER=${3:-quick}
WT=${SYMGO_TRY_DIR:-/tmp/symgo-try}
OUT=$WT.out
head=$(git -C /repo rev-parse HEAD)
if [ ! -d "$WT" ]; then git -C /repo worktree add --detach "$WT" "$head" >/dev/null 2>&1 || { echo "cannot create $WT"; exit 2; }; fi
git -C "$WT" checkout -q --detach "$head" 2>/dev/null; git -C "$WT" reset -q --hard "$head"; git -C "$WT" clean -fdq
git -C "$WT" apply "$DIFF" || { echo "diff does not apply"; exit 2; }
mkdir -p "$OUT"
cd /verif && SYMGO_REPO="$WT" SYMGO_OUT="$OUT" bin/check $ID --tier $TIER 2>&1 | grep -v "^  cover" | grep "VIOLATION\|KNOWN\|OK property\|INCONCLUSIVE\|UNCONFIRMED\|  harness="
rc=${PIPESTATUS[0]}
git -C "$WT" reset -q --hard "$head"; git -C "$WT" clean -fdq
echo "check exit=$rc"
