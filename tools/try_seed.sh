#!/bin/bash
# usage: try_seed.sh <property id> <diff> [tier]
# Applies a seeded change to /repo, runs the property's check, and restores /repo.
ID=$1; DIFF=$(realpath "$2"); TIER=${3:-quick}
cd /repo || exit 2
[ -z "$(git status --porcelain)" ] || { echo "/repo not clean"; exit 2; }
git apply "$DIFF" || { echo "diff does not apply"; exit 2; }
cd /verif && bin/check $ID --tier $TIER 2>&1 | grep -v "^  cover" | grep "VIOLATION\|KNOWN\|OK property\|INCONCLUSIVE\|UNCONFIRMED\|  harness="
rc=${PIPESTATUS[0]}
cd /repo && git checkout -q -- . && git status --porcelain
echo "check exit=$rc"
