#!/bin/bash
cd "$1" || exit 1
out=$(go run . 2>build.err); rc=$?
python3 - "$rc" "$out" <<'PY'
import json,sys
rc=int(sys.argv[1]); out=sys.argv[2]
exp=json.load(open('expected.json'))
if not exp['Compiles']:
    print('AGREE-NOCOMPILE' if rc!=0 else 'DISAGREE expected compile failure but it ran', flush=True)
else:
    if rc!=0: print('DISAGREE expected to compile:', open('build.err').read()[:300].replace('\n',' | '))
    else:
        got=sorted((r['Verb'],r['Path'],r['Groups']) for r in (json.loads(out) or []))
        want=sorted((r['Verb'],r['Path'],r['Groups']) for r in (exp['Routes'] or []))
        print('AGREE' if got==want else f'DISAGREE routes got={got} want={want}')
PY
