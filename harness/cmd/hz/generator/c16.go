//go:build verif

package generator

import (
	"strings"

	zz "github.com/cloudwego/hertz/cmd/hz/internal/zzverif"
)

// The router template (package_tpl.go, templates "g"/"G") and the middleware template ("M"),
// read as a program over the router tree. zzRegister interprets the tree the way the Go
// compiler and hertz read the emitted text:
//
//	G(n):  if n.Handler != "":   <n.GroupName>.<n.HttpMethod>("<n.Path>", append(<n.HandlerMiddleware>Mw(), <n.Handler>)...)
//	       if n has children:    <n.MiddleWare> := <"r" if n.Path == "/" else n.GroupName>.Group("<n.Path>", <n.GroupMiddleware>Mw()...)
//	       for each child c:     G(c) when c has a handler, { G(c) } in a block of its own otherwise
//
// with Go's scoping rules (":=" of a name already declared in the same block does not compile, a
// name resolves to the innermost declaration, a declared name must be used) and hertz's joining
// of group and route paths.
type zzDecl struct {
	path string // full path of the group the variable holds
	node *RouterNode
	used bool
}

type zzScope struct {
	vars   map[string]*zzDecl
	parent *zzScope
}

func (s *zzScope) lookup(name string) *zzDecl {
	for ; s != nil; s = s.parent {
		if d, ok := s.vars[name]; ok {
			return d
		}
	}
	return nil
}

type zzReg struct {
	verb, path, handler string
	groups              []*RouterNode // the group nodes whose middleware wraps the route, outermost first
}

type zzInterp struct {
	regs      []zzReg
	funcs     []string // middleware function names emitted by template "M"
	undefined bool
	redecl    bool
	unused    bool
	badIdent  bool
}

func zzIdentOK(s string) bool {
	if s == "" {
		return false
	}
	for i := 0; i < len(s); i++ {
		c := s[i]
		if c == '_' || (c >= 'a' && c <= 'z') || (c >= 'A' && c <= 'Z') || (c >= '0' && c <= '9' && i > 0) {
			continue
		}
		return false
	}
	return true
}

// hertz: (*RouterGroup).calculateAbsolutePath = joinPaths(basePath, relativePath)
func zzJoin(abs, rel string) string {
	if rel == "" {
		return abs
	}
	return strings.TrimRight(abs, "/") + "/" + strings.TrimLeft(rel, "/")
}

func (in *zzInterp) groupsOf(d *zzDecl, chain map[*RouterNode][]*RouterNode) []*RouterNode {
	return chain[d.node]
}

func (in *zzInterp) g(n *RouterNode, sc *zzScope, chain map[*RouterNode][]*RouterNode) {
	if n.Handler != "" {
		d := sc.lookup(n.GroupName)
		if d == nil {
			in.undefined = true
		} else {
			d.used = true
			in.regs = append(in.regs, zzReg{verb: n.HttpMethod, path: zzJoin(d.path, n.Path), handler: n.Handler, groups: chain[d.node]})
		}
		if !zzIdentOK(n.HandlerMiddleware) {
			in.badIdent = true
		}
	}
	var mine *zzDecl
	if len(n.Children) != 0 {
		recvPath := ""
		var recvChain []*RouterNode
		if n.Path != "/" {
			d := sc.lookup(n.GroupName)
			if d == nil {
				in.undefined = true
			} else {
				d.used = true
				recvPath = d.path
				recvChain = chain[d.node]
			}
		}
		if !zzIdentOK(n.MiddleWare) || !zzIdentOK(n.GroupMiddleware) {
			in.badIdent = true
		}
		if _, dup := sc.vars[n.MiddleWare]; dup {
			in.redecl = true
		}
		mine = &zzDecl{path: zzJoin(recvPath, n.Path), node: n}
		chain[n] = append(append([]*RouterNode(nil), recvChain...), n)
		sc.vars[n.MiddleWare] = mine
	}
	for _, c := range n.Children {
		if c.Handler != "" {
			in.g(c, sc, chain)
		} else {
			in.g(c, &zzScope{vars: map[string]*zzDecl{}, parent: sc}, chain)
		}
	}
	if mine != nil && !mine.used {
		in.unused = true
	}
}

func (in *zzInterp) m(n *RouterNode) {
	if len(n.Children) != 0 {
		in.funcs = append(in.funcs, n.GroupMiddleware+"Mw")
	}
	if n.Handler != "" {
		in.funcs = append(in.funcs, n.HandlerMiddleware+"Mw")
	}
	for _, c := range n.Children {
		in.m(c)
	}
}

var zzSegs = []string{"a-b", "a_b", ":id", "a", "*w", "A", "a.b", "b"}

type zzDeclared struct {
	verb, path, name string
	segs             []string
}

// ZZ_C16_H1: the router tree the hz generator builds from the declared (verb, path, handler
// name) set, read through the router and middleware templates: for every set of up to K routes
// of up to D segments over an alphabet with parameters, a catch-all, segments that collide after
// identifier mangling (a-b / a_b / a.b, a / A), shared prefixes, the root path and trailing
// slashes, verbs GET/POST/Any, in both insertion orders, with and without router sorting: the
// emitted registration text compiles as far as identifiers go (every name declared before use
// in an enclosing block, none declared twice in a block, none unused, all middleware function
// names distinct and valid) and registers exactly the declared (verb, path) set, each with the
// declared handler and inside the groups of its path prefixes.
func ZZ_C16_H1() {
	zzC16(zz.Range("routes", 1, zz.Param("K", 2)), zz.Param("D", 2), zzSegs[:zz.Param("SEGS", len(zzSegs))], 3)
}

// ZZ_C16_H2: the same with exactly three routes over a smaller alphabet (a third route is what
// it takes to insert between two existing siblings and to revisit a group that was created for
// another verb).
func ZZ_C16_H2() {
	zzC16(3, zz.Param("D", 2), zzSegs[:zz.Param("SEGS", 2)], zz.Param("VERBS", 2))
}

// ZZ_C16_H7: two routes over segments that differ only in letter case (a / A, :id / :ID): hertz
// matches paths case-sensitively, so /a/x and /A/y are two groups and each route is registered
// under its own spelling.
func ZZ_C16_H7() {
	zzC16(2, zz.Param("D", 2), []string{"a", "A", ":id", ":ID", "b"}, zz.Param("VERBS", 1))
}

func zzC16(k, maxDepth int, alphabet []string, nverbs int) {
	nsegs := len(alphabet)
	var decl []zzDeclared
	for i := 0; i < k; i++ {
		verb := []string{"GET", "POST", "Any"}[zz.Choose("verb", nverbs)]
		depth := zz.Range("depth", 0, maxDepth)
		var segs []string
		for j := 0; j < depth; j++ {
			segs = append(segs, alphabet[zz.Choose("segment", nsegs)])
		}
		path := "/" + strings.Join(segs, "/")
		if depth > 0 && zz.Choose("trailingSlash", 2) == 1 {
			path += "/"
		}
		// a catch-all is the last segment of its path (anything else is refused by the router itself)
		for j, s := range segs {
			zz.Assume(s[0] != '*' || (j == len(segs)-1 && path[len(path)-1] != '/'))
		}
		decl = append(decl, zzDeclared{verb: verb, path: path, name: "Method" + string(rune('A'+i)), segs: segs})
	}
	// the IDL declares each (verb, path) once
	for i := range decl {
		for j := 0; j < i; j++ {
			zz.Assume(decl[i].path != decl[j].path || decl[i].verb != decl[j].verb)
		}
	}
	sortRouter := zz.Choose("sortRouter", 2) == 1
	root := NewRouterTree()
	for i := range decl {
		err := root.Update(&HttpMethod{Name: decl[i].name, HTTPMethod: decl[i].verb, Path: decl[i].path}, "svc", "", sortRouter)
		zz.Assert("declared-route-accepted", err == nil)
		if err != nil {
			return
		}
	}
	err := root.DyeGroupName(false)
	zz.Cover("reached-assert", true)
	zz.Assert("names-assigned", err == nil)
	if err != nil {
		return
	}
	in := &zzInterp{}
	in.g(root, &zzScope{vars: map[string]*zzDecl{}}, map[*RouterNode][]*RouterNode{})
	in.m(root)
	zz.Assert("every-group-variable-is-declared-before-use", !in.undefined)
	zz.Assert("no-variable-declared-twice-in-a-block", !in.redecl)
	zz.Assert("no-declared-variable-unused", !in.unused)
	zz.Assert("identifiers-are-valid-go", !in.badIdent)
	dupFunc := false
	for i := range in.funcs {
		for j := 0; j < i; j++ {
			if in.funcs[i] == in.funcs[j] {
				dupFunc = true
			}
		}
	}
	zz.Assert("middleware-function-names-distinct", !dupFunc)
	// exactly the declared set
	zz.Assert("as-many-registrations-as-declared-routes", len(in.regs) == len(decl))
	allFound := true
	wrapped := true
	for _, d := range decl {
		n := 0
		for _, r := range in.regs {
			if r.path == d.path && strings.EqualFold(r.verb, d.verb) {
				n++
				if r.handler != "svc."+d.name {
					allFound = false
				}
				// the groups around the route are exactly the root group and one group per proper
				// prefix of the path's segment list (a trailing slash makes the last segment a group)
				parts := strings.Split(d.path, "/")[1:]
				if len(r.groups) != len(parts) {
					wrapped = false
				} else {
					for gi, g := range r.groups {
						want := "/" + strings.Join(parts[:gi], "/")
						if groupPath(g) != want {
							wrapped = false
						}
					}
				}
			}
		}
		if n != 1 {
			allFound = false
		}
	}
	zz.Cover("first-segments-differ-in-case-only", len(decl) == 2 && len(decl[0].segs) > 0 && len(decl[1].segs) > 0 && decl[0].segs[0] != decl[1].segs[0] && strings.EqualFold(decl[0].segs[0], decl[1].segs[0]))
	zz.Cover("shared-prefix", len(decl) == 2 && len(decl[0].segs) > 0 && len(decl[1].segs) > 0 && decl[0].segs[0] == decl[1].segs[0])
	zz.Assert("each-declared-route-registered-once-with-its-handler", allFound)
	zz.Assert("each-route-inside-the-groups-of-its-path-prefixes", wrapped)
}

// groupPath is the full path of a group node, from the tree itself.
func groupPath(n *RouterNode) string {
	p := ""
	var chain []*RouterNode
	for c := n; c != nil; c = c.Parent {
		chain = append(chain, c)
	}
	for i := len(chain) - 1; i >= 0; i-- {
		p = zzJoin(p, chain[i].Path)
	}
	return p
}

// ZZ_C16_H3: snake-style middleware names. Three routes /<group path>/x|y|z whose group paths
// come from {a-b, a_b, a/b, a, a-b/c} - up to three groups whose snake name is "_a_b". After
// DyeGroupName(true) the de-duplication pass of genRouter is applied (that pass is a closure
// inside genRouter, next to the file output, so its dozen lines are repeated here around the
// real appendMw), then the tree is read through the templates as in H1.
func ZZ_C16_H3() {
	groups := []string{"a-b", "a_b", "a/b", "a", "a-b/c"}
	leaves := []string{"x", "y", "z"}
	sortRouter := zz.Choose("sortRouter", 2) == 1
	root := NewRouterTree()
	var paths []string
	for i := 0; i < 3; i++ {
		p := "/" + groups[zz.Choose("group", len(groups))] + "/" + leaves[i]
		paths = append(paths, p)
		err := root.Update(&HttpMethod{Name: "Method" + string(rune('A'+i)), HTTPMethod: "GET", Path: p}, "svc", "", sortRouter)
		zz.Assert("declared-route-accepted", err == nil)
		if err != nil {
			return
		}
	}
	err := root.DyeGroupName(true)
	zz.Assert("names-assigned", err == nil)
	if err != nil {
		return
	}
	// genRouter: "unique middleware name for SnakeStyleMiddleware"
	mws := []string{}
	root.DFS(0, func(layer int, node *RouterNode) error { //nolint:errcheck
		if len(node.Children) == 0 {
			return nil
		}
		groupMwName := node.GroupMiddleware
		handlerMwName := node.HandlerMiddleware
		if len(groupMwName) != 0 {
			mws, groupMwName = appendMw(mws, groupMwName)
		}
		if len(handlerMwName) != 0 {
			mws, handlerMwName = appendMw(mws, handlerMwName)
		}
		node.GroupMiddleware = groupMwName
		node.HandlerMiddleware = handlerMwName
		return nil
	})
	in := &zzInterp{}
	in.g(root, &zzScope{vars: map[string]*zzDecl{}}, map[*RouterNode][]*RouterNode{})
	in.m(root)
	zz.Cover("reached-assert", true)
	zz.Assert("every-group-variable-is-declared-before-use", !in.undefined)
	zz.Assert("no-variable-declared-twice-in-a-block", !in.redecl)
	zz.Assert("no-declared-variable-unused", !in.unused)
	zz.Assert("identifiers-are-valid-go", !in.badIdent)
	dupFunc := false
	for i := range in.funcs {
		for j := 0; j < i; j++ {
			if in.funcs[i] == in.funcs[j] {
				dupFunc = true
			}
		}
	}
	zz.Cover("three-groups-with-one-snake-name", strings.Contains(paths[0]+paths[1]+paths[2], "a-b/") && strings.Contains(paths[0]+paths[1]+paths[2], "a_b/") && strings.Contains(paths[0]+paths[1]+paths[2], "a/b/"))
	zz.Assert("middleware-function-names-distinct", !dupFunc)
	ok := len(in.regs) == 3
	for i, p := range paths {
		n := 0
		for _, r := range in.regs {
			if r.path == p && r.verb == "GET" && r.handler == "svc.Method"+string(rune('A'+i)) {
				n++
			}
		}
		if n != 1 {
			ok = false
		}
	}
	zz.Assert("each-declared-route-registered-once-with-its-handler", ok)
}

// ZZ_C16_H4: the uniquifier behind the snake-style names on its own: whatever names are asked
// for, in whatever order, the names handed out are pairwise distinct.
func ZZ_C16_H4() {
	names := []string{"_a_b", "_a_b0", "_a", "_a_b00", "_a_b01"}
	k := zz.Range("calls", 1, zz.Param("K", 4))
	mws := []string{}
	var out []string
	for i := 0; i < k; i++ {
		var got string
		mws, got = appendMw(mws, names[zz.Choose("name", len(names))])
		out = append(out, got)
	}
	zz.Cover("reached-assert", true)
	distinct := true
	for i := range out {
		for j := 0; j < i; j++ {
			if out[i] == out[j] {
				distinct = false
			}
		}
	}
	zz.Assert("names-handed-out-are-pairwise-distinct", distinct)
}

// ZZ_C16_H5: handler-by-method: every method names the package its handler lives in; the router
// file imports each package once under an alias. Two or three routes whose handler packages come
// from paths with the same or colliding base names (h/a-b, h/a_b, g/a_b, h/a): aliases are valid
// identifiers, one package has one alias, two packages never share one, and each route is bound
// to <alias of its package>.<declared name>.
func ZZ_C16_H5() {
	pkgs := []string{"proj/h/a-b", "proj/h/a_b", "proj/g/a_b", "proj/h/a"}
	k := zz.Range("routes", 2, 3)
	root := NewRouterTree()
	var chosen []string
	for i := 0; i < k; i++ {
		pkg := pkgs[zz.Choose("handlerPackage", len(pkgs))]
		chosen = append(chosen, pkg)
		m := &HttpMethod{Name: "Method" + string(rune('A'+i)), HTTPMethod: "GET", Path: "/r/" + string(rune('x'+i))}
		err := root.Update(m, "svc", pkg, zz.Choose("sortRouter", 2) == 1)
		zz.Assert("declared-route-accepted", err == nil)
		if err != nil {
			return
		}
	}
	zz.Assert("names-assigned", root.DyeGroupName(false) == nil)
	// what genRouter collects for the import block: alias -> package
	imports := map[string]string{}
	clash := false
	var handlers []string
	root.DFS(0, func(layer int, node *RouterNode) error { //nolint:errcheck
		if len(node.HandlerPackage) != 0 {
			if p, ok := imports[node.HandlerPackageAlias]; ok && p != node.HandlerPackage {
				clash = true
			}
			imports[node.HandlerPackageAlias] = node.HandlerPackage
			handlers = append(handlers, node.Handler+"@"+node.HandlerPackage)
		}
		return nil
	})
	zz.Cover("reached-assert", true)
	zz.Assert("two-packages-never-share-an-alias", !clash)
	valid := true
	for a := range imports {
		if !zzIdentOK(a) {
			valid = false
		}
	}
	zz.Assert("aliases-are-valid-identifiers", valid)
	ok := len(handlers) == k
	for i, pkg := range chosen {
		alias := ""
		for a, p := range imports {
			if p == pkg {
				if alias != "" {
					ok = false // one package imported under two aliases
				}
				alias = a
			}
		}
		found := false
		for _, h := range handlers {
			if h == alias+".Method"+string(rune('A'+i))+"@"+pkg {
				found = true
			}
		}
		if !found {
			ok = false
		}
	}
	zz.Cover("colliding-base-names", len(imports) >= 2)
	zz.Assert("each-route-bound-to-its-package-alias-and-declared-name", ok)
}

// the registration methods of hertz's RouterGroup that the router template can name
var zzRouterGroupMethods = []string{"GET", "POST", "PUT", "DELETE", "PATCH", "HEAD", "OPTIONS", "Any"}

// ZZ_C16_H6: the verb as the IDL front ends spell it (thrift's tags give "ANY" and upper-case
// verbs, protobuf's "Any", a hand-written template configuration may use lower case): whatever
// the spelling, the registration statement names a method RouterGroup has, and it is the
// declared verb.
func ZZ_C16_H6() {
	spellings := []string{"GET", "get", "Post", "DELETE", "options", "Any", "ANY", "any"}
	canonical := []string{"GET", "GET", "POST", "DELETE", "OPTIONS", "Any", "Any", "Any"}
	i := zz.Choose("spelling", len(spellings))
	j := zz.Choose("secondSpelling", len(spellings))
	sortRouter := zz.Choose("sortRouter", 2) == 1
	root := NewRouterTree()
	err := root.Update(&HttpMethod{Name: "MethodA", HTTPMethod: spellings[i], Path: "/a/b"}, "svc", "", sortRouter)
	zz.Assert("declared-route-accepted", err == nil)
	// a second route on the same path with another verb (or the same verb spelled differently:
	// then the tool may refuse it as registered already)
	err2 := root.Update(&HttpMethod{Name: "MethodB", HTTPMethod: spellings[j], Path: "/a/c"}, "svc", "", sortRouter)
	zz.Assert("second-route-accepted", err2 == nil)
	if err != nil || err2 != nil || root.DyeGroupName(false) != nil {
		return
	}
	in := &zzInterp{}
	in.g(root, &zzScope{vars: map[string]*zzDecl{}}, map[*RouterNode][]*RouterNode{})
	zz.Cover("reached-assert", true)
	ok := len(in.regs) == 2
	for _, r := range in.regs {
		known := false
		for _, m := range zzRouterGroupMethods {
			if r.verb == m {
				known = true
			}
		}
		if !known {
			ok = false
		}
		if r.path == "/a/b" && r.verb != canonical[i] {
			ok = false
		}
		if r.path == "/a/c" && r.verb != canonical[j] {
			ok = false
		}
	}
	zz.Assert("registration-names-a-router-group-method-for-the-declared-verb", ok)
}
