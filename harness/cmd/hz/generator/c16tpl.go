//go:build verif

package generator

import (
	"bytes"
	"strconv"
	"strings"
	"text/template"

	zz "github.com/cloudwego/hertz/cmd/hz/internal/zzverif"
)

// A small interpreter of the text/template subset that the router and middleware templates of
// package_tpl.go are written in (define / template / if / else / else if / range / end, field
// chains, eq, ne, len, string and integer literals, trim markers). It is run by the symbolic
// executor on the template text of the current source tree, so the text of the templates is
// part of what ZZ_C16_H8 decides; compiled natively the same harness renders the templates with
// the real text/template package and demands the same output, byte for byte.

type zzTNode struct {
	kind      byte // 't' text, 'o' output, 'i' if, 'r' range, 'c' template call
	text      string
	expr      []string
	body, alt []*zzTNode
	varName   string
}

type zzTpl struct {
	defs map[string][]*zzTNode
	toks []zzTTok
	pos  int
	bad  bool
}

type zzTTok struct {
	action bool
	s      string
}

func zzLexTemplate(body string) []zzTTok {
	var toks []zzTTok
	trimNext := false
	for {
		i := strings.Index(body, "{{")
		if i < 0 {
			break
		}
		text := body[:i]
		rest := body[i+2:]
		j := strings.Index(rest, "}}")
		if j < 0 {
			break
		}
		act := rest[:j]
		body = rest[j+2:]
		if trimNext {
			text = strings.TrimLeft(text, " \t\r\n")
		}
		if strings.HasPrefix(act, "- ") {
			text = strings.TrimRight(text, " \t\r\n")
			act = act[2:]
		}
		trimNext = false
		if strings.HasSuffix(act, " -") {
			trimNext = true
			act = act[:len(act)-2]
		}
		if text != "" {
			toks = append(toks, zzTTok{false, text})
		}
		toks = append(toks, zzTTok{true, strings.TrimSpace(act)})
	}
	if trimNext {
		body = strings.TrimLeft(body, " \t\r\n")
	}
	if body != "" {
		toks = append(toks, zzTTok{false, body})
	}
	return toks
}

func zzExprToks(s string) []string {
	s = strings.ReplaceAll(s, "(", " ( ")
	s = strings.ReplaceAll(s, ")", " ) ")
	return strings.Fields(s)
}

// parseList parses nodes up to the next else / else if / end (returned) or the end of input.
func (t *zzTpl) parseList() ([]*zzTNode, string) {
	var out []*zzTNode
	for t.pos < len(t.toks) {
		tk := t.toks[t.pos]
		t.pos++
		if !tk.action {
			out = append(out, &zzTNode{kind: 't', text: tk.s})
			continue
		}
		a := tk.s
		switch {
		case a == "end" || a == "else" || strings.HasPrefix(a, "else if "):
			return out, a
		case strings.HasPrefix(a, "define "):
			name := strings.Trim(strings.TrimSpace(a[len("define "):]), "\"")
			body, term := t.parseList()
			if term != "end" {
				t.bad = true
			}
			t.defs[name] = body
		case strings.HasPrefix(a, "if "):
			out = append(out, t.parseIf(a[3:]))
		case strings.HasPrefix(a, "range "):
			n := &zzTNode{kind: 'r'}
			e := a[len("range "):]
			if i := strings.Index(e, ":="); i >= 0 {
				vars := strings.Split(e[:i], ",")
				n.varName = strings.TrimSpace(vars[len(vars)-1])
				e = e[i+2:]
			}
			n.expr = zzExprToks(e)
			var term string
			n.body, term = t.parseList()
			if term != "end" {
				t.bad = true
			}
			out = append(out, n)
		case strings.HasPrefix(a, "template "):
			f := zzExprToks(a[len("template "):])
			if len(f) < 2 {
				t.bad = true
				continue
			}
			out = append(out, &zzTNode{kind: 'c', text: strings.Trim(f[0], "\""), expr: f[1:]})
		default:
			out = append(out, &zzTNode{kind: 'o', expr: zzExprToks(a)})
		}
	}
	return out, ""
}

func (t *zzTpl) parseIf(cond string) *zzTNode {
	n := &zzTNode{kind: 'i', expr: zzExprToks(cond)}
	var term string
	n.body, term = t.parseList()
	switch {
	case term == "else":
		n.alt, term = t.parseList()
		if term != "end" {
			t.bad = true
		}
	case strings.HasPrefix(term, "else if "):
		n.alt = []*zzTNode{t.parseIf(term[len("else if "):])} // shares this if's end
	case term != "end":
		t.bad = true
	}
	return n
}

type zzTVal struct {
	kind byte // 's' string, 'i' int, 'n' node, 'l' list of nodes, 0 invalid
	s    string
	i    int
	n    *RouterNode
	l    []*RouterNode
}

type zzTEnv struct {
	dot, root zzTVal
	vars      map[string]zzTVal
}

func (t *zzTpl) field(v zzTVal, name string) zzTVal {
	switch v.kind {
	case 'n':
		n := v.n
		switch name {
		case "GroupName":
			return zzTVal{kind: 's', s: n.GroupName}
		case "MiddleWare":
			return zzTVal{kind: 's', s: n.MiddleWare}
		case "HandlerMiddleware":
			return zzTVal{kind: 's', s: n.HandlerMiddleware}
		case "GroupMiddleware":
			return zzTVal{kind: 's', s: n.GroupMiddleware}
		case "Path":
			return zzTVal{kind: 's', s: n.Path}
		case "Handler":
			return zzTVal{kind: 's', s: n.Handler}
		case "HttpMethod":
			return zzTVal{kind: 's', s: n.HttpMethod}
		case "Children":
			return zzTVal{kind: 'l', l: n.Children}
		}
	case 'l':
		if name == "Len" {
			return zzTVal{kind: 'i', i: len(v.l)}
		}
	}
	t.bad = true
	return zzTVal{}
}

func (t *zzTpl) atom(tok string, env *zzTEnv) zzTVal {
	if len(tok) >= 2 && tok[0] == '"' && tok[len(tok)-1] == '"' {
		return zzTVal{kind: 's', s: tok[1 : len(tok)-1]}
	}
	if tok[0] >= '0' && tok[0] <= '9' {
		n, err := strconv.Atoi(tok)
		if err != nil {
			t.bad = true
		}
		return zzTVal{kind: 'i', i: n}
	}
	var v zzTVal
	rest := ""
	switch {
	case tok[0] == '.':
		v, rest = env.dot, tok[1:]
	case tok[0] == '$':
		name := tok
		if i := strings.Index(tok, "."); i >= 0 {
			name, rest = tok[:i], tok[i+1:]
		}
		if name == "$" {
			v = env.root
		} else {
			w, ok := env.vars[name]
			if !ok {
				t.bad = true
			}
			v = w
		}
	default:
		t.bad = true
		return zzTVal{}
	}
	if rest != "" {
		for _, f := range strings.Split(rest, ".") {
			v = t.field(v, f)
		}
	}
	return v
}

// eval evaluates toks[*p:] as one command: a function applied to arguments, or an atom.
func (t *zzTpl) eval(toks []string, p *int, env *zzTEnv) zzTVal {
	if *p >= len(toks) {
		t.bad = true
		return zzTVal{}
	}
	tok := toks[*p]
	*p++
	arg := func() zzTVal {
		if *p < len(toks) && toks[*p] == "(" {
			*p++
			v := t.eval(toks, p, env)
			if *p >= len(toks) || toks[*p] != ")" {
				t.bad = true
			} else {
				*p++
			}
			return v
		}
		if *p >= len(toks) {
			t.bad = true
			return zzTVal{}
		}
		a := toks[*p]
		*p++
		return t.atom(a, env)
	}
	switch tok {
	case "eq", "ne":
		a, b := arg(), arg()
		same := a.kind == b.kind && a.s == b.s && a.i == b.i
		if a.kind != b.kind || (a.kind != 's' && a.kind != 'i') {
			t.bad = true // text/template refuses to compare values of different basic kinds
		}
		if tok == "ne" {
			same = !same
		}
		if same {
			return zzTVal{kind: 'i', i: 1}
		}
		return zzTVal{kind: 'i', i: 0}
	case "len":
		a := arg()
		if a.kind == 'l' {
			return zzTVal{kind: 'i', i: len(a.l)}
		}
		if a.kind == 's' {
			return zzTVal{kind: 'i', i: len(a.s)}
		}
		t.bad = true
		return zzTVal{}
	case "(":
		v := t.eval(toks, p, env)
		if *p < len(toks) && toks[*p] == ")" {
			*p++
		} else {
			t.bad = true
		}
		return v
	}
	return t.atom(tok, env)
}

func (t *zzTpl) evalAll(toks []string, env *zzTEnv) zzTVal {
	p := 0
	v := t.eval(toks, &p, env)
	if p != len(toks) {
		t.bad = true
	}
	return v
}

func (t *zzTpl) exec(nodes []*zzTNode, env *zzTEnv, out *[]byte, depth int) {
	if depth > 40 {
		t.bad = true
		return
	}
	for _, n := range nodes {
		switch n.kind {
		case 't':
			*out = append(*out, n.text...)
		case 'o':
			v := t.evalAll(n.expr, env)
			switch v.kind {
			case 's':
				*out = append(*out, v.s...)
			case 'i':
				*out = strconv.AppendInt(*out, int64(v.i), 10)
			default:
				t.bad = true
			}
		case 'i':
			v := t.evalAll(n.expr, env)
			truth := (v.kind == 'i' && v.i != 0) || (v.kind == 's' && v.s != "") || (v.kind == 'l' && len(v.l) > 0) || (v.kind == 'n' && v.n != nil)
			if truth {
				t.exec(n.body, env, out, depth)
			} else {
				t.exec(n.alt, env, out, depth)
			}
		case 'r':
			v := t.evalAll(n.expr, env)
			if v.kind != 'l' {
				t.bad = true
				continue
			}
			for _, c := range v.l {
				inner := &zzTEnv{dot: zzTVal{kind: 'n', n: c}, root: env.root, vars: map[string]zzTVal{}}
				for k, w := range env.vars {
					inner.vars[k] = w
				}
				if n.varName != "" {
					inner.vars[n.varName] = inner.dot
				}
				t.exec(n.body, inner, out, depth)
			}
		case 'c':
			v := t.evalAll(n.expr, env)
			body, ok := t.defs[n.text]
			if !ok {
				t.bad = true
				continue
			}
			t.exec(body, &zzTEnv{dot: v, root: v, vars: map[string]zzTVal{}}, out, depth+1)
		}
	}
}

func zzTemplateBody(name string) string {
	for _, l := range defaultPkgConfig.Layouts {
		if strings.HasSuffix(l.Path, sp+name) {
			return l.Body
		}
	}
	return ""
}

// zzRender renders the named sub-template of a layout body on the router tree.
func zzRender(body, name string, root *RouterNode) (string, bool) {
	t := &zzTpl{defs: map[string][]*zzTNode{}, toks: zzLexTemplate(body)}
	t.parseList()
	def, ok := t.defs[name]
	if !ok || t.bad {
		return "", false
	}
	var out []byte
	v := zzTVal{kind: 'n', n: root}
	t.exec(def, &zzTEnv{dot: v, root: v, vars: map[string]zzTVal{}}, &out, 0)
	return string(out), !t.bad
}

func zzRenderReal(body, name string, root *RouterNode) (string, error) {
	tpl, err := template.New("zz").Delims("{{", "}}").Parse(body)
	if err != nil {
		return "", err
	}
	var buf bytes.Buffer
	err = tpl.ExecuteTemplate(&buf, name, root)
	return buf.String(), err
}

// The emitted text, read back the way the Go compiler and hertz read it.
type zzTextReading struct {
	regs      []zzReg
	mwUsed    []string
	bad       bool
	undefined bool
	redecl    bool
}

// zzParseCall reads `recv.Method("path", rest` and returns its parts.
func zzParseCall(l string) (recv, method, path, rest string, ok bool) {
	dot := strings.Index(l, ".")
	par := strings.Index(l, "(")
	if dot <= 0 || par < dot || par+1 >= len(l) || l[par+1] != '"' {
		return
	}
	recv, method = l[:dot], l[dot+1:par]
	q := strings.Index(l[par+2:], "\"")
	if q < 0 {
		return
	}
	path = l[par+2 : par+2+q]
	rest = l[par+2+q+1:]
	if !strings.HasPrefix(rest, ", ") {
		return
	}
	return recv, method, path, rest[2:], true
}

func zzReadRouterText(text string) *zzTextReading {
	rd := &zzTextReading{}
	sc := &zzScope{vars: map[string]*zzDecl{"r": {path: ""}}}
	for _, line := range strings.Split(text, "\n") {
		l := strings.TrimSpace(line)
		for l != "" {
			if l[0] == '{' {
				sc = &zzScope{vars: map[string]*zzDecl{}, parent: sc}
				l = strings.TrimSpace(l[1:])
				continue
			}
			if l[0] == '}' {
				if sc.parent == nil {
					rd.bad = true
				} else {
					sc = sc.parent
				}
				l = strings.TrimSpace(l[1:])
				continue
			}
			if i := strings.Index(l, " := "); i >= 0 {
				name := l[:i]
				recv, method, path, rest, ok := zzParseCall(l[i+4:])
				if !ok || method != "Group" || !strings.HasSuffix(rest, "Mw()...)") || !zzIdentOK(name) {
					rd.bad = true
					break
				}
				rd.mwUsed = append(rd.mwUsed, rest[:len(rest)-len("()...)")])
				d := sc.lookup(recv)
				base := ""
				if d == nil {
					rd.undefined = true
				} else {
					base = d.path
				}
				if _, dup := sc.vars[name]; dup {
					rd.redecl = true
				}
				sc.vars[name] = &zzDecl{path: zzJoin(base, path)}
				break
			}
			recv, method, path, rest, ok := zzParseCall(l)
			if !ok || !strings.HasPrefix(rest, "append(") || !strings.HasSuffix(rest, ")...)") {
				rd.bad = true
				break
			}
			args := strings.Split(rest[len("append("):len(rest)-len(")...)")], ", ")
			if len(args) != 2 || !strings.HasSuffix(args[0], "Mw()") {
				rd.bad = true
				break
			}
			rd.mwUsed = append(rd.mwUsed, args[0][:len(args[0])-2])
			d := sc.lookup(recv)
			base := ""
			if d == nil {
				rd.undefined = true
			} else {
				base = d.path
			}
			rd.regs = append(rd.regs, zzReg{verb: method, path: zzJoin(base, path), handler: args[1]})
			break
		}
	}
	if sc.parent != nil {
		rd.bad = true
	}
	return rd
}

func zzReadMiddlewareText(text string) (funcs []string, bad bool) {
	for _, line := range strings.Split(text, "\n") {
		l := strings.TrimSpace(line)
		if strings.HasPrefix(l, "func ") {
			p := strings.Index(l, "(")
			if p < 0 {
				return nil, true
			}
			funcs = append(funcs, l[len("func "):p])
		}
	}
	return funcs, false
}

// ZZ_C16_H8: the text of the router and middleware templates themselves. The tree of one to
// three declared routes (segments a-b / a_b / :id, nesting, a route that is also the prefix of
// a later route, router sorting on/off) is rendered through the templates "G" and "M" as they
// stand in package_tpl.go, and the emitted text is read back the way the Go compiler and hertz
// read it: every statement has one of the two expected shapes, every group variable is declared
// before use and not twice in a block, the registrations are exactly the declared (verb, path,
// handler) set, every middleware function the router text calls is defined by the middleware
// text, exactly once. The text-level reading also has to agree with the structural reading of
// the tree that the other C16 harnesses use, which ties their interpreter to the template text.
func ZZ_C16_H8() {
	k := zz.Range("routes", 1, zz.Param("K", 3))
	alphabet := []string{"a-b", "a_b", ":id"}
	var decl []zzDeclared
	for i := 0; i < k; i++ {
		verb := []string{"GET", "POST"}[zz.Choose("verb", 2)]
		depth := zz.Range("depth", 0, zz.Param("D", 2))
		var segs []string
		for j := 0; j < depth; j++ {
			segs = append(segs, alphabet[zz.Choose("segment", zz.Param("SEGS", 2))])
		}
		path := "/" + strings.Join(segs, "/")
		decl = append(decl, zzDeclared{verb: verb, path: path, name: "Method" + string(rune('A'+i)), segs: segs})
	}
	for i := range decl {
		for j := 0; j < i; j++ {
			zz.Assume(decl[i].path != decl[j].path || decl[i].verb != decl[j].verb)
		}
	}
	sortRouter := zz.Choose("sortRouter", 2) == 1
	root := NewRouterTree()
	for i := range decl {
		if err := root.Update(&HttpMethod{Name: decl[i].name, HTTPMethod: decl[i].verb, Path: decl[i].path}, "svc", "", sortRouter); err != nil {
			zz.Assert("declared-route-accepted", false)
			return
		}
	}
	if err := root.DyeGroupName(false); err != nil {
		zz.Assert("names-assigned", false)
		return
	}
	routerBody, mwBody := zzTemplateBody(routerTplName), zzTemplateBody(middlewareTplName)
	zz.Assert("templates-found", routerBody != "" && mwBody != "")
	gText, ok1 := zzRender(routerBody, "G", root)
	mText, ok2 := zzRender(mwBody, "M", root)
	zz.Cover("reached-assert", true)
	zz.Assert("templates-stay-within-the-interpreted-subset", ok1 && ok2)
	if !ok1 || !ok2 {
		return
	}
	if !zz.Symbolic() {
		// native twin: the real text/template package renders the same bytes
		g2, err1 := zzRenderReal(routerBody, "G", root)
		m2, err2 := zzRenderReal(mwBody, "M", root)
		zz.Assert("interpreter-agrees-with-text/template", err1 == nil && err2 == nil && g2 == gText && m2 == mText)
	}
	rd := zzReadRouterText(gText)
	funcs, badM := zzReadMiddlewareText(mText)
	zz.Assert("emitted-statements-have-the-expected-shapes", !rd.bad && !badM)
	zz.Assert("every-group-variable-is-declared-before-use", !rd.undefined)
	zz.Assert("no-variable-declared-twice-in-a-block", !rd.redecl)
	// every middleware function called is defined, and none is defined twice
	defined := true
	for _, u := range rd.mwUsed {
		n := 0
		for _, f := range funcs {
			if f == u {
				n++
			}
		}
		if n != 1 {
			defined = false
		}
	}
	zz.Assert("every-middleware-function-called-is-defined-exactly-once", defined)
	// exactly the declared set
	exact := len(rd.regs) == len(decl)
	for _, d := range decl {
		n := 0
		for _, r := range rd.regs {
			if r.path == d.path && r.verb == d.verb && r.handler == "svc."+d.name {
				n++
			}
		}
		if n != 1 {
			exact = false
		}
	}
	zz.Assert("registrations-in-the-text-are-exactly-the-declared-set", exact)
	// the structural reading used by H1..H7 sees the same program
	in := &zzInterp{}
	in.g(root, &zzScope{vars: map[string]*zzDecl{}}, map[*RouterNode][]*RouterNode{})
	in.m(root)
	agree := len(in.regs) == len(rd.regs) && len(in.funcs) == len(funcs)
	if agree {
		for i := range in.regs {
			if in.regs[i].verb != rd.regs[i].verb || in.regs[i].path != rd.regs[i].path || in.regs[i].handler != rd.regs[i].handler {
				agree = false
			}
		}
		for i := range in.funcs {
			if in.funcs[i] != funcs[i] {
				agree = false
			}
		}
	}
	zz.Assert("structural-reading-agrees-with-the-text", agree)
	endpointAndGroup := false
	var walk func(n *RouterNode)
	walk = func(n *RouterNode) {
		if n.Handler != "" && len(n.Children) != 0 {
			endpointAndGroup = true
		}
		for _, c := range n.Children {
			walk(c)
		}
	}
	walk(root)
	zz.Cover("a-route-that-is-also-a-group", endpointAndGroup)
}
