//go:build verif

package standard

import (
	"net"

	"github.com/cloudwego/hertz/pkg/network"
)

// ZZNewConn wraps an arbitrary net.Conn in the real buffered standard.Conn (newConn is
// unexported). This is the "H1" hook of the property file, provided as an overlay file so that
// /repo itself stays untouched.
func ZZNewConn(c net.Conn) network.Conn { return newConn(c, defaultMallocSize) }

// ZZNewConnSize is the same with an explicit initial buffer size.
func ZZNewConnSize(c net.Conn, size int) network.Conn { return newConn(c, size) }
