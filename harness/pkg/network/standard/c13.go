//go:build verif

package standard

import (
	"bytes"
	"io"

	zz "github.com/cloudwego/hertz/internal/zzverif"
)

func zzWire(n int) []byte {
	b := make([]byte, n)
	for i := range b {
		b[i] = byte(i*7 + i/251)
	}
	// symbolic bytes at the node boundaries
	sym := zz.Bytes("boundarybytes", 8)
	for j, at := range []int{0, 1023, 4095, 4096, 8191, 8192, 12287, 12288} {
		if at < n {
			b[at] = sym[j]
		}
	}
	return b
}

var zzBases = []int{1, 4096, 8192}

// a size in a window around a buffer-boundary constant: base + d, d in [-1, +1]. Sizes decide
// the shape of the heap (which node a byte lands in), so they are concrete choices: one path per
// value.
func zzSize(name string) int {
	base := zzBases[zz.Choose(name+"-base", len(zzBases))]
	n := base + zz.Range(name+"-delta", -1, 1)
	if n < 1 {
		n = 1
	}
	return n
}

type zzPeek struct {
	p  []byte
	at int
}

// ZZ_C13_H1: reader side of the buffered connection against a byte-queue model. Every operation
// sequence of length K over {Peek, Skip, ReadByte, ReadBinary, Read, Release, Len} with sizes in
// windows around 1, 1 KiB, 4 KiB and 8 KiB, over fragmented input: bytes observed are the wire
// bytes at the model cursor, Len is buffered-minus-consumed, and every slice returned by Peek
// since the last Release still holds the same bytes after each later operation.
func ZZ_C13_H1() {
	total := 4*8193 + 300
	wire := zzWire(total)
	nc := zz.NewNetConn(wire)
	fragChoice := zz.Choose("frag", 4)
	frags := []int{0, 1000, 4096, 5000}
	if frags[fragChoice] > 0 {
		f := frags[fragChoice]
		nc.Frag = func(rem int) int { return f }
	}
	c := newConn(nc, defaultMallocSize).(*Conn)
	cursor := 0
	var peeks, copies []zzPeek
	k := zz.Param("K", 3)
	allOK := true
	lenOK := true
	stable := true
	for i := 0; i < k; i++ {
		op := zz.Choose("op", 7)
		switch op {
		case 0: // Peek
			n := zzSize("peek")
			p, err := c.Peek(n)
			if err != nil || len(p) != n || !bytes.Equal(p, wire[cursor:cursor+n]) {
				allOK = false
			}
			peeks = append(peeks, zzPeek{p, cursor})
		case 1: // Skip what is buffered (Skip never waits for data)
			n := zzSize("skip")
			buffered := nc.Pos - cursor
			err := c.Skip(n)
			if n <= buffered {
				if err != nil {
					allOK = false
				}
				cursor += n
			} else if err == nil {
				allOK = false
			}
		case 2:
			b, err := c.ReadByte()
			if err != nil || b != wire[cursor] {
				allOK = false
			}
			cursor++
		case 3:
			n := zzSize("readbinary")
			p, err := c.ReadBinary(n)
			if err != nil || !bytes.Equal(p, wire[cursor:cursor+n]) {
				allOK = false
			}
			copies = append(copies, zzPeek{p, cursor}) // a "read copy": the caller's own, for good
			cursor += n
		case 4:
			n := zzSize("read")
			buf := make([]byte, n)
			m, err := c.Read(buf)
			if err != nil || m < 1 || m > n || !bytes.Equal(buf[:m], wire[cursor:cursor+m]) {
				allOK = false
			}
			cursor += m
			// Read releases consumed buffers (documented): earlier peeks are no longer valid
			peeks = peeks[:0]
		case 5:
			if c.Release() != nil {
				allOK = false
			}
			peeks = peeks[:0]
		case 6:
			if c.Len() != nc.Pos-cursor {
				lenOK = false
			}
		}
		if c.Len() != nc.Pos-cursor {
			lenOK = false
		}
		for _, pk := range peeks {
			if !bytes.Equal(pk.p, wire[pk.at:pk.at+len(pk.p)]) {
				stable = false
			}
		}
	}
	// closing observation: what comes next on the connection is what the wire has at the cursor
	fin, ferr := c.Peek(64)
	if ferr != nil || !bytes.Equal(fin, wire[cursor:cursor+64]) {
		allOK = false
	}
	for _, pk := range peeks {
		if !bytes.Equal(pk.p, wire[pk.at:pk.at+len(pk.p)]) {
			stable = false
		}
	}
	if c.Len() != nc.Pos-cursor {
		lenOK = false
	}
	// one more allocation of every pooled size class, so that a block handed back too early is re-issued
	c.Release() //nolint:errcheck
	for _, n := range []int{2000, 4097, 8193} {
		if len(copies) > 0 && cursor+n <= total {
			q, err := c.Peek(n)
			if err != nil || !bytes.Equal(q, wire[cursor:cursor+n]) {
				allOK = false
			}
		}
	}
	copiesOK := true
	for _, cp := range copies {
		if !bytes.Equal(cp.p, wire[cp.at:cp.at+len(cp.p)]) {
			copiesOK = false
		}
	}
	zz.Cover("reached-assert", true)
	zz.Cover("crossed-node-boundary", cursor > 4096)
	zz.Assert("read-copies-stay-the-callers", copiesOK)
	zz.Assert("bytes-are-the-sent-bytes-in-order", allOK)
	zz.Assert("len-is-buffered-minus-consumed", lenOK)
	zz.Assert("peeked-slices-stable-until-release", stable)
}

// ZZ_C13_H2: writer side: after Flush the peer has received exactly the concatenation of what
// was written through Malloc and WriteBinary, in order, for sizes around the copy/reference
// threshold (4 KiB) and two flushes in a row.
func ZZ_C13_H2() {
	nc := zz.NewNetConn(nil)
	c := newConn(nc, defaultMallocSize).(*Conn)
	var want []byte
	seq := 0
	k := zz.Param("K", 3)
	ok := true
	for i := 0; i < k; i++ {
		op := zz.Choose("op", 3)
		switch op {
		case 0:
			n := zzSize("malloc")
			buf, err := c.Malloc(n)
			if err != nil || len(buf) != n {
				ok = false
				break
			}
			for j := range buf {
				buf[j] = byte(seq + j)
			}
			want = append(want, buf...)
			seq += 13
		case 1:
			n := zzSize("writebinary")
			b := make([]byte, n)
			for j := range b {
				b[j] = byte(seq + 3*j)
			}
			m, err := c.WriteBinary(b)
			if err != nil || m != n {
				ok = false
			}
			want = append(want, b...)
			seq += 17
		case 2:
			if c.Flush() != nil {
				ok = false
			}
			if !bytes.Equal(nc.Out, want) {
				ok = false
			}
		}
	}
	if c.Flush() != nil {
		ok = false
	}
	zz.Cover("reached-assert", true)
	zz.Assert("no-error", ok)
	zz.Assert("peer-received-concatenation-in-order", bytes.Equal(nc.Out, want))
}

var _ = io.EOF

// ZZ_C13_H3: end of input at any point. The stream has T bytes (T around the node-boundary
// sizes, or a few bytes), delivered under four fragmentations, the last bytes arriving with or
// without the end-of-input error in the same read. K operations over {Peek, ReadBinary,
// ReadByte, Read, Skip}: an operation that fits in what is left behaves as on an endless stream;
// one that does not fit reports an error and never hands out bytes that are not the wire's; after
// a Peek that failed for lack of data nothing is lost: Len is what is left and a Peek of exactly
// that returns it.
func ZZ_C13_H3() {
	total := zzSize("total")
	if zz.Choose("tiny", 2) == 1 {
		total = zz.Range("tinytotal", 0, 3)
	}
	wire := zzWire(total)
	nc := zz.NewNetConn(wire)
	frags := []int{0, 1, 1000, 4096}
	if f := frags[zz.Choose("frag", 4)]; f > 0 {
		nc.Frag = func(rem int) int { return f }
	}
	nc.EOFWithData = zz.Choose("eofWithData", 2) == 1
	c := newConn(nc, defaultMallocSize).(*Conn)
	cursor := 0
	k := zz.Param("K", 2)
	ok, errOK, restOK := true, true, true
	failed := false
	for i := 0; i < k && !failed; i++ {
		left := total - cursor
		switch zz.Choose("op", 5) {
		case 0:
			n := zzSize("peek")
			p, err := c.Peek(n)
			if n <= left {
				if err != nil || !bytes.Equal(p, wire[cursor:cursor+n]) {
					ok = false
				}
			} else {
				zz.Cover("peek-beyond-end", true)
				if err == nil {
					errOK = false
				}
				if len(p) > left || !bytes.Equal(p, wire[cursor:cursor+len(p)]) {
					ok = false
				}
				// nothing lost: everything that is left is buffered and can still be peeked
				if c.Len() != left {
					restOK = false
				}
				if left > 0 {
					q, err2 := c.Peek(left)
					if err2 != nil || !bytes.Equal(q, wire[cursor:]) {
						restOK = false
					}
				}
			}
		case 1:
			n := zzSize("readbinary")
			p, err := c.ReadBinary(n)
			if n <= left {
				if err != nil || !bytes.Equal(p, wire[cursor:cursor+n]) {
					ok = false
				}
				cursor += n
			} else {
				if err == nil {
					errOK = false
				}
				failed = true
			}
		case 2:
			b, err := c.ReadByte()
			if left >= 1 {
				if err != nil || b != wire[cursor] {
					ok = false
				}
				cursor++
			} else {
				if err == nil {
					errOK = false
				}
				failed = true
			}
		case 3:
			n := zzSize("read")
			buf := make([]byte, n)
			m, err := c.Read(buf)
			if left >= 1 {
				// (a Read may deliver the last bytes together with the end-of-input error)
				if m < 1 || m > n || m > left || !bytes.Equal(buf[:m], wire[cursor:cursor+m]) || (err != nil && cursor+m != total) {
					ok = false
				}
				cursor += m
			} else {
				if err == nil || m != 0 {
					errOK = false
				}
				failed = true
			}
		case 4:
			n := zzSize("skip")
			buffered := c.Len()
			err := c.Skip(n)
			if n <= buffered {
				if err != nil {
					ok = false
				}
				cursor += n
			} else if err == nil {
				errOK = false
			}
		}
	}
	zz.Cover("reached-assert", true)
	zz.Cover("hit-end-of-input", failed)
	zz.Assert("bytes-are-the-sent-bytes-in-order", ok)
	zz.Assert("operation-beyond-end-of-input-reports-an-error", errOK)
	zz.Assert("nothing-lost-after-a-failed-peek", restOK)
}

// ZZ_C13_BIG: the > 512 KiB regime. A Peek larger than the pooled-block limit gets a node of its
// own; after everything buffered has been consumed and released, the connection must keep
// working: the next bytes observed are the next wire bytes.
func ZZ_C13_BIG() {
	const big = 512*1024 + 1
	extra := zz.Range("extra", 0, 2)
	total := big + extra + 200
	wire := make([]byte, total)
	for i := range wire {
		wire[i] = byte(i*7 + i/251)
	}
	sym := zz.Bytes("boundarybytes", 3)
	wire[0], wire[big-1], wire[big+extra] = sym[0], sym[1], sym[2]
	nc := zz.NewNetConn(wire)
	first := []int{0, 4096, 100}[zz.Choose("firstFragment", 3)]
	nc.Frag = func(rem int) int {
		pos := total - rem
		if pos == 0 && first > 0 {
			return first
		}
		if pos < big+extra {
			return big + extra - pos // the rest of the large block in one read
		}
		return rem
	}
	c := newConn(nc, defaultMallocSize).(*Conn)
	ok := true
	if zz.Choose("readByteFirst", 2) == 1 {
		b, err := c.ReadByte()
		if err != nil || b != wire[0] {
			ok = false
		}
		p, err := c.Peek(big + extra - 1)
		if err != nil || len(p) != big+extra-1 || p[0] != wire[1] || p[len(p)-1] != wire[big+extra-1] {
			ok = false
		}
		if c.Skip(big+extra-1) != nil {
			ok = false
		}
	} else {
		p, err := c.Peek(big + extra)
		if err != nil || len(p) != big+extra || p[0] != wire[0] || p[big-1] != wire[big-1] {
			ok = false
		}
		if c.Skip(big+extra) != nil {
			ok = false
		}
	}
	lenOK := c.Len() == nc.Pos-(big+extra)
	if c.Release() != nil {
		ok = false
	}
	fin, err := c.Peek(64)
	if err != nil || !bytes.Equal(fin, wire[big+extra:big+extra+64]) {
		ok = false
	}
	zz.Cover("reached-assert", true)
	zz.Assert("bytes-are-the-sent-bytes-in-order", ok)
	zz.Assert("len-is-buffered-minus-consumed", lenOK)
}

// zzChunkReader hands out its data in reads of at most step bytes, then io.EOF.
type zzChunkReader struct {
	data []byte
	step int
}

func (r *zzChunkReader) Read(p []byte) (int, error) {
	if len(r.data) == 0 {
		return 0, io.EOF
	}
	n := r.step
	if n > len(r.data) {
		n = len(r.data)
	}
	if n > len(p) {
		n = len(p)
	}
	copy(p, r.data[:n])
	r.data = r.data[n:]
	return n, nil
}

// ZZ_C13_RF: writer side with ReadFrom (the path a response body stream takes) on an underlying
// connection that is not an io.ReaderFrom: pending output of a size around the node sizes
// (1, 1 KiB, 4 KiB, 8 KiB, and 9000 = a large node with spare room), written by Malloc or
// WriteBinary, then ReadFrom of a source of a size in the same windows handed out whole or in
// small reads, then an optional further Malloc, then Flush: the peer receives exactly the
// concatenation, in order.
func ZZ_C13_RF() {
	nc := zz.NewNetConn(nil)
	c := newConn(nc, defaultMallocSize).(*Conn)
	var want []byte
	ok := true
	size := func(name string) int {
		if zz.Choose(name+"-large", 2) == 1 {
			return 9000
		}
		return zzSize(name)
	}
	switch zz.Choose("pending", 3) {
	case 1:
		n := size("malloc")
		buf, err := c.Malloc(n)
		if err != nil || len(buf) != n {
			ok = false
			break
		}
		for j := range buf {
			buf[j] = byte(7 + j)
		}
		want = append(want, buf...)
	case 2:
		n := size("writebinary")
		b := make([]byte, n)
		for j := range b {
			b[j] = byte(3 * j)
		}
		if m, err := c.WriteBinary(b); err != nil || m != n {
			ok = false
		}
		want = append(want, b...)
	}
	n := size("source")
	src := make([]byte, n)
	for j := range src {
		src[j] = byte(101 + 5*j)
	}
	step := []int{1 << 20, 1000}[zz.Choose("smallreads", 2)]
	m, err := c.ReadFrom(&zzChunkReader{data: src, step: step})
	if err != nil || m != int64(n) {
		ok = false
	}
	want = append(want, src...)
	if zz.Choose("then-malloc", 2) == 1 {
		buf, err := c.Malloc(3)
		if err != nil || len(buf) != 3 {
			ok = false
		} else {
			copy(buf, "end")
			want = append(want, "end"...)
		}
	}
	if c.Flush() != nil {
		ok = false
	}
	zz.Cover("reached-assert", true)
	zz.Assert("no-error", ok)
	zz.Assert("peer-received-concatenation-in-order", bytes.Equal(nc.Out, want))
}
