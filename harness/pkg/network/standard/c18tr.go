//go:build verif

package standard

import (
	"context"
	"net"
	"time"

	zz "github.com/cloudwego/hertz/internal/zzverif"
)

type zzListener struct {
	closes int
}

func (l *zzListener) Accept() (net.Conn, error) { return nil, net.ErrClosed }
func (l *zzListener) Close() error              { l.closes++; return nil }
func (l *zzListener) Addr() net.Addr            { return nil }

// zzDrainCtx is the caller's context: it expires after `polls` looks at Done(), and at each look
// notes whether the listener was still open.
type zzDrainCtx struct {
	ln         *zzListener
	polls      int
	looked     int
	openAtLook bool
	open, done chan struct{}
	onLook     func(n int)
}

func (c *zzDrainCtx) Deadline() (time.Time, bool)       { return time.Time{}, false }
func (c *zzDrainCtx) Value(key interface{}) interface{} { return nil }
func (c *zzDrainCtx) Err() error {
	if c.looked > c.polls {
		return context.DeadlineExceeded
	}
	return nil
}
func (c *zzDrainCtx) Done() <-chan struct{} {
	c.looked++
	if c.onLook != nil {
		c.onLook(c.looked)
	}
	if c.ln.closes == 0 {
		c.openAtLook = true
	}
	if c.looked > c.polls {
		return c.done
	}
	return c.open
}

// ZZ_C18_TR: the standard transport's Shutdown with 0..2 connections still active that do or do
// not finish while it waits: the listener is closed exactly once and before the wait for the
// active connections begins ("no new connection is accepted afterwards"); the call returns nil
// once no connection is active and the context's error when the caller's wait time ends first.
func ZZ_C18_TR() {
	ln := &zzListener{}
	active := zz.Int32("active")
	zz.Assume(active >= 0 && active <= 2)
	t := &transport{ln: ln, active: active, network: "tcp", addr: "127.0.0.1:0"}
	ctx := &zzDrainCtx{ln: ln, polls: zz.Range("polls", 0, 3), open: make(chan struct{}), done: make(chan struct{})}
	close(ctx.done)
	// the active connections all finish during the second look, or never
	finish := zz.Choose("connectionsFinish", 2) == 1
	ctx.onLook = func(n int) {
		if finish && n == 2 {
			t.updateActive(-active)
		}
	}
	err := t.Shutdown(ctx)
	zz.Cover("reached-assert", true)
	zz.Cover("drained-with-active-connections", ctx.looked > 0)
	zz.Assert("listener-closed-exactly-once", ln.closes == 1)
	zz.Assert("listener-closed-before-the-wait-for-active-connections", !ctx.openAtLook)
	if active == 0 {
		zz.Assert("idle-server-shuts-down-cleanly", err == nil)
	} else if finish && ctx.looked >= 2 {
		// the connections finished during the wait
		zz.Cover("connections-finished-in-time", ctx.polls >= 2)
		if ctx.polls >= 2 {
			zz.Assert("returns-once-no-connection-is-active", err == nil && ctx.looked == 2)
		} else {
			// they finished at the very look at which the caller's wait ended: either answer is right
			zz.Assert("drained-or-deadline", err == nil || err == context.DeadlineExceeded)
		}
	} else {
		// (natively a tick and the expiry can be ready at the same moment and select may take the
		// tick first, which costs one more look: at least polls+1 looks, exactly that many here)
		zz.Assert("busy-server-waits-until-the-callers-deadline", err == context.DeadlineExceeded && ctx.looked >= ctx.polls+1)
	}
}
