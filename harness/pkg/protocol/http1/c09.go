//go:build verif

package http1

import (
	"bytes"
	"context"
	"errors"

	zz "github.com/cloudwego/hertz/internal/zzverif"
	"github.com/cloudwego/hertz/pkg/app"
	"github.com/cloudwego/hertz/pkg/network"
	"github.com/cloudwego/hertz/pkg/network/standard"
	"github.com/cloudwego/hertz/pkg/protocol"
	"github.com/cloudwego/hertz/pkg/protocol/http1/resp"
	"github.com/cloudwego/hertz/pkg/route/param"
)

// mutators applied by the handler of the first request (the "history")
const zzNumMutators = 41

func zzMutate(c context.Context, ctx *app.RequestContext, m int, v []byte) {
	s := string(v)
	switch m {
	case 0:
		ctx.Set("k"+s, s)
	case 1:
		ctx.Response.Header.Set("X-M"+s, s)
	case 2:
		ctx.Response.Header.SetContentType("x/" + s)
	case 3:
		ctx.SetStatusCode(418)
	case 4:
		ctx.Response.AppendBodyString("m" + s)
	case 5:
		ctx.Abort()
	case 6:
		ctx.Error(errors.New("e" + s)) //nolint:errcheck
	case 7:
		ctx.Params = append(ctx.Params, param.Param{Key: "p", Value: s})
	case 8:
		ctx.SetFullPath("/full" + s)
	case 9:
		ctx.Request.Header.Set("X-R"+s, s)
	case 10:
		ctx.Request.SetBodyString("b" + s)
	case 11:
		ctx.Request.URI().SetQueryString("q=" + s)
	case 12:
		ctx.Request.Header.SetCookie("c", s)
	case 13:
		ctx.Response.Header.SetCookie(&protocol.Cookie{})
	case 14:
		ctx.Response.SkipBody = true
	case 15:
		ctx.Response.Header.SetNoDefaultContentType(true)
	case 16:
		ctx.Request.Header.SetMethod("PATCH")
	case 17:
		ctx.Request.URI().SetHash("h" + s)
	case 18:
		ctx.Request.Header.SetUserAgentBytes(v)
	case 19:
		ctx.Response.Header.SetServerBytes(v)
	case 20:
		ctx.Request.PostArgs().Add("pa", s)
	case 21:
		ctx.Response.Header.Trailer().Set("X-T", s) //nolint:errcheck
	case 22:
		ctx.Request.Header.Trailer().Set("X-T", s) //nolint:errcheck
	case 23:
		ctx.SetHandlers(app.HandlersChain{func(c context.Context, ctx *app.RequestContext) {}})
	case 24:
		ctx.Request.Header.DisableNormalizing()
	case 25:
		ctx.Response.Header.DisableNormalizing()
	case 26:
		ctx.Request.Header.SetContentTypeBytes(v)
	case 27:
		ctx.Response.Header.SetContentEncoding("z" + s)
	case 28:
		ctx.Request.SetOptions()
	case 29:
		ctx.Response.ImmediateHeaderFlush = true
	case 30:
		ctx.Response.SetBodyRaw(append([]byte("raw"), v...))
	case 31:
		_ = ctx.QueryArgs().Len() // parse the query (it contains a key without value)
		_ = ctx.PostArgs().Len()
	case 32:
		ctx.Request.SetBodyRaw(append([]byte("rawreq"), v...))
	case 33:
		ctx.Hijack(func(c network.Conn) {})
	case 34:
		ctx.Response.HijackWriter(resp.NewChunkedBodyWriter(&ctx.Response, ctx.GetWriter()))
	case 35:
		// a response body stream whose Close reports an error (e.g. a file closed twice)
		ctx.Response.SetBodyStream(&zzBadCloser{r: bytes.NewReader([]byte("bs" + s))}, 3)
	case 36:
		ctx.Request.Header.Del("X-Ra") // a non-last entry of the header list
	case 37:
		ctx.QueryArgs().Del("a")
	case 38:
		ctx.Request.Header.DelCookie("s")
	case 39:
		ctx.Response.Header.Set("X-Wa", s)
		ctx.Response.Header.Set("X-Wb", s)
		ctx.Response.Header.Del("X-Wa")
	case 40:
		// the application hands its own map to the context; it stays the application's
		zzAppKeys = map[string]interface{}{"secret": "s3cr3t", "k" + s: s}
		ctx.Keys = zzAppKeys
	}
}

var zzAppKeys map[string]interface{}

type zzBadCloser struct{ r *bytes.Reader }

func (b *zzBadCloser) Read(p []byte) (int, error) { return b.r.Read(p) }
func (b *zzBadCloser) Close() error               { return errors.New("zz: close failed") }

// zzDump writes everything the second request's handler can observe about the recycled
// context and its request/response objects.
func zzDump(ctx *app.RequestContext) []byte {
	var b []byte
	add := func(name string, v []byte) {
		b = append(b, name...)
		b = append(b, '=')
		b = append(b, v...)
		b = append(b, '\n')
	}
	flag := func(name string, v bool) {
		if v {
			add(name, []byte("1"))
		} else {
			add(name, []byte("0"))
		}
	}
	num := func(name string, v int) {
		add(name, []byte{byte('0' + (v/100)%10), byte('0' + (v/10)%10), byte('0' + v%10)})
	}
	add("method", ctx.Method())
	add("path", ctx.Path())
	add("uri", ctx.Request.RequestURI())
	add("query", ctx.Request.URI().QueryString())
	add("hash", ctx.Request.URI().Hash())
	add("host", ctx.Host())
	add("ua", ctx.UserAgent())
	add("ct", ctx.ContentType())
	add("reqbody", ctx.Request.Body())
	add("fullpath", []byte(ctx.FullPath()))
	num("params", len(ctx.Params))
	num("errors", len(ctx.Errors))
	num("handlers", len(ctx.Handlers()))
	num("index", int(ctx.GetIndex())+1)
	flag("aborted", ctx.IsAborted())
	nkeys := 0
	ctx.ForEachKey(func(k string, v interface{}) { nkeys++ })
	num("keys", nkeys)
	ctx.Request.Header.VisitAll(func(k, v []byte) {
		add("reqh:"+string(k), v)
	})
	ctx.Request.Header.VisitAllCookie(func(k, v []byte) {
		add("reqcookie:"+string(k), v)
	})
	num("postargs", ctx.Request.PostArgs().Len())
	flag("reqtrailer-empty", ctx.Request.Header.Trailer().Empty())
	flag("req-normalizing-disabled", ctx.Request.Header.IsDisableNormalizing())
	flag("req-close", ctx.Request.ConnectionClose())
	num("req-cl", ctx.Request.Header.ContentLength()+3)
	// response side (before this handler touches it)
	num("status", ctx.Response.StatusCode())
	add("respbody", ctx.Response.Body())
	ctx.Response.Header.VisitAll(func(k, v []byte) {
		add("resph:"+string(k), v)
	})
	ctx.Response.Header.VisitAllCookie(func(k, v []byte) {
		add("respcookie:"+string(k), v)
	})
	flag("skipbody", ctx.Response.SkipBody)
	flag("immediate-flush", ctx.Response.ImmediateHeaderFlush)
	flag("resptrailer-empty", ctx.Response.Header.Trailer().Empty())
	flag("resp-normalizing-disabled", ctx.Response.Header.IsDisableNormalizing())
	flag("resp-close", ctx.Response.ConnectionClose())
	flag("resp-bodystream", ctx.Response.IsBodyStream())
	flag("hijackwriter", ctx.Response.GetHijackWriter() != nil)
	flag("hijacked", ctx.Hijacked())
	// exercise slot reuse: add one entry to every key/value list and serialise it
	qa := ctx.QueryArgs()
	qa.Add("next", "/home")
	add("query-after-add", qa.QueryString())
	pa := ctx.PostArgs()
	pa.Add("pn", "pv")
	add("post-after-add", pa.QueryString())
	ctx.Request.Header.Add("X-New", "nv")
	add("reqheader-after-add", ctx.Request.Header.Header())
	ctx.Response.Header.Add("X-New", "nv")
	add("respheader-after-add", ctx.Response.Header.Header())
	ctx.Request.Header.SetCookie("nc", "nv")
	add("reqcookie-after-add", ctx.Request.Header.Peek("Cookie"))
	return b
}

const zzProbe = "POST /probe?x=1&y=2&z=3 HTTP/1.1\r\nHost: p\r\nx-low: v\r\nX-Pa: 1111\r\nX-Pb: 2222\r\nX-Pc: 3333\r\nCookie: pa=1; pb=2; pc=3\r\nContent-Length: 2\r\n\r\nzz"

// ZZ_C09_H1: a history of mutating API calls applied during request 1 (symbolic choice of two
// mutators from the list, symbolic argument byte) must be invisible to request 2 on the same
// keep-alive connection: the probe's full observable dump, and the bytes of its response, equal
// what a fresh connection with fresh objects gives.
func ZZ_C09_H1() {
	m1 := zz.Choose("mutator1", zzNumMutators)
	m2 := zz.Choose("mutator2", zzNumMutators+1) // the extra value means "none"
	arg := zz.Bytes("arg", 1)
	zz.Assume(arg[0] > ' ' && arg[0] < 0x7f && arg[0] != ';' && arg[0] != '=' && arg[0] != '&' && arg[0] != '#' && arg[0] != '%')
	if m1 == 33 || m2 == 33 || m1 == 35 || m2 == 35 {
		// a hijacked connection, or one whose response stream failed to close, serves no further
		// request (ZZ_C09_H5 covers those mutators: the probe runs on another connection)
		return
	}
	panics := zz.Choose("recoveredPanic", 2) == 1
	opts := zz.Choose("serverOptions", 3) // 0 defaults, 1 NoDefaultContentType, 2 DisableHeaderNamesNormalizing
	run := func(withHistory bool) (dump []byte, out []byte) {
		wire := []byte(zzProbe)
		if withHistory {
			wire = append([]byte("POST /first?a=b&debug&c=d HTTP/1.1\r\nHost: f\r\nX-Ra: aaaa\r\nX-Rb: bbbb\r\nX-Rc: cccc\r\nCookie: s=1; novalue; t=2\r\nContent-Type: application/x-www-form-urlencoded\r\nContent-Length: 7\r\n\r\nabc&f=1"), wire...)
		}
		nc := zz.NewNetConn(wire)
		n := 0
		core := zzNewCore(nil)
		core.handler = func(c context.Context, ctx *app.RequestContext) {
			n++
			if withHistory && n == 1 {
				func() {
					defer func() { recover() }()
					zzMutate(c, ctx, m1, arg)
					if m2 < zzNumMutators {
						zzMutate(c, ctx, m2, arg)
					}
					if panics {
						panic("handler panic, recovered by middleware")
					}
				}()
				return
			}
			dump = zzDump(ctx)
			ctx.Response.SetBodyString("probe")
		}
		s := zzNewServer(core)
		s.IdleTimeout = 1
		s.NoDefaultContentType = opts == 1
		s.DisableHeaderNamesNormalizing = opts == 2
		_ = s.Serve(context.Background(), standard.ZZNewConn(nc))
		out = nc.Out
		return
	}
	zzAppKeys = nil
	freshDump, freshOut := run(false)
	dump, out := run(true)
	if zzAppKeys != nil {
		// recycling the context must not reach into a map the application still owns
		zz.Assert("application-owned-map-left-alone", len(zzAppKeys) == 2 && zzAppKeys["secret"] == "s3cr3t")
	}
	zz.Observe("dump", dump)
	zz.Cover("reached-assert", true)
	zz.Assert("probe-handled", len(dump) > 0 && len(freshDump) > 0)
	zz.Assert("recycled-context-indistinguishable-from-fresh", bytes.Equal(dump, freshDump))
	// the probe's response is the tail of the output
	zz.Assert("probe-response-identical", len(out) >= len(freshOut) && bytes.Equal(out[len(out)-len(freshOut):], freshOut))
}

// ZZ_C09_H5: recycling after an exchange that ended in an error. Connection 1 carries one
// request whose handler applies a mutator; one write-side or read-side I/O fault is injected at a
// symbolic operation index, so Serve leaves through one of its error exits and hands the context
// back to the pool. Connection 2 (the pool re-issues that context) carries the probe: its dump
// and its response bytes must equal those of a probe served with fresh objects.
func ZZ_C09_H5() {
	m1 := zz.Choose("mutator", zzNumMutators)
	arg := zz.Bytes("arg", 1)
	zz.Assume(arg[0] > ' ' && arg[0] < 0x7f && arg[0] != ';' && arg[0] != '=' && arg[0] != '&' && arg[0] != '#' && arg[0] != '%')
	fault := zz.Choose("fault", 2) // 0 write error, 1 read error
	at := zz.Int("faultAt")
	zz.Assume(at >= 0 && at <= zz.Param("OPS", 3))
	var dump, freshDump []byte
	mk := func() (*zzCore, *Server) {
		core := zzNewCore(nil)
		s := zzNewServer(core)
		s.IdleTimeout = 1
		s.HijackConnHandle = func(c network.Conn, h app.HijackHandler) { h(c) }
		return core, s
	}
	// fresh objects
	core0, s0 := mk()
	core0.handler = func(c context.Context, ctx *app.RequestContext) {
		freshDump = zzDump(ctx)
		ctx.Response.SetBodyString("probe")
	}
	nc0 := zz.NewNetConn([]byte(zzProbe))
	_ = s0.Serve(context.Background(), standard.ZZNewConn(nc0))
	// history on connection 1, probe on connection 2, same pool
	core, s := mk()
	n := 0
	core.handler = func(c context.Context, ctx *app.RequestContext) {
		n++
		if n == 1 {
			zzMutate(c, ctx, m1, arg)
			return
		}
		dump = zzDump(ctx)
		ctx.Response.SetBodyString("probe")
	}
	nc1 := zz.NewNetConn([]byte("POST /first?a=b&debug&c=d HTTP/1.1\r\nHost: f\r\nX-Ra: aaaa\r\nX-Rb: bbbb\r\nX-Rc: cccc\r\nCookie: s=1; novalue; t=2\r\nContent-Length: 7\r\n\r\nabc&f=1" + zzProbe))
	if fault == 0 {
		nc1.WriteErrAt = at
	} else {
		nc1.ReadErrAt = at
	}
	err1 := s.Serve(context.Background(), standard.ZZNewConn(nc1))
	zz.Cover("first-connection-ended-in-error", err1 != nil && n == 1)
	if n != 1 {
		return // the fault hit before the first handler, or not at all (the probe ran on connection 1)
	}
	nc2 := zz.NewNetConn([]byte(zzProbe))
	_ = s.Serve(context.Background(), standard.ZZNewConn(nc2))
	zz.Cover("reached-assert", true)
	zz.Assert("probe-handled", len(dump) > 0 && len(freshDump) > 0)
	zz.Assert("recycled-context-indistinguishable-from-fresh", bytes.Equal(dump, freshDump))
	zz.Assert("probe-response-identical", bytes.Equal(nc2.Out, nc0.Out))
}

// ZZ_C12_H6: the request context the server hands to the engine, pooled or not (the documented
// HERTZ_DISABLE_REQUEST_CONTEXT_POOL switch): on every request of a keep-alive connection - the
// first one included - a chain of n handlers that all call Next is entered from its first
// handler, each handler once, in registration order.
func ZZ_C12_H6() {
	old := disabaleRequestContextPool
	defer func() { disabaleRequestContextPool = old }()
	disabaleRequestContextPool = zz.Choose("contextPoolDisabled", 2) == 1
	n := zz.Range("handlers", 1, 3)
	firstAborts := zz.Choose("firstRequestAborts", 2) == 1 // the first handler of the first request calls Abort
	var tr []int
	reqNo := 0
	chain := make(app.HandlersChain, n)
	for i := range chain {
		id := i
		chain[i] = func(c context.Context, ctx *app.RequestContext) {
			tr = append(tr, id)
			if firstAborts && reqNo == 1 && id == 0 {
				ctx.Abort()
				return
			}
			ctx.Next(c)
		}
	}
	core := zzNewCore(func(c context.Context, ctx *app.RequestContext) {
		// what Engine.ServeHTTP does with the matched route's chain
		reqNo++
		ctx.SetHandlers(chain)
		ctx.Next(c)
	})
	s := zzNewServer(core)
	s.IdleTimeout = 1
	k := zz.Range("requests", 1, 2)
	wire := []byte("GET /a HTTP/1.1\r\nHost: h\r\n\r\n")
	if k == 2 {
		wire = append(wire, "GET /b HTTP/1.1\r\nHost: h\r\n\r\n"...)
	}
	nc := zz.NewNetConn(wire)
	_ = s.Serve(context.Background(), standard.ZZNewConn(nc))
	zz.Cover("reached-assert", true)
	zz.Cover("pool-disabled", disabaleRequestContextPool)
	// expected trace: the full chain per request, except that an aborting first request stops
	// after its first handler - and only that request
	var want []int
	for r := 1; r <= k; r++ {
		for i := 0; i < n; i++ {
			want = append(want, i)
			if firstAborts && r == 1 {
				break
			}
		}
	}
	ok := len(tr) == len(want)
	if ok {
		for i := range tr {
			if tr[i] != want[i] {
				ok = false
			}
		}
	}
	zz.Assert("chain-entered-from-its-first-handler-on-every-request", ok)
}
