//go:build verif

package http1

import (
	"bytes"
	"context"

	zz "github.com/cloudwego/hertz/internal/zzverif"
	"github.com/cloudwego/hertz/pkg/app"
	"github.com/cloudwego/hertz/pkg/network/standard"
)

// zzRunSplit serves wire delivered as fragments cut at the given split points.
func zzRunSplit(wire []byte, splits []int, stream bool) *zzRunResult {
	return zzRunSplit2(wire, splits, stream, true)
}

// readBody=false: the handler of a streamed request returns without touching the body, so the
// server has to drop it (the release path) before the next request
func zzRunSplit2(wire []byte, splits []int, stream, readBody bool) *zzRunResult {
	res := &zzRunResult{}
	nc := zz.NewNetConn(wire)
	if len(splits) > 0 {
		nc.Frag = func(rem int) int {
			pos := len(wire) - rem
			for _, s := range splits {
				if s > pos {
					return s - pos
				}
			}
			return rem
		}
	}
	res.nc = nc
	core := zzNewCore(func(c context.Context, ctx *app.RequestContext) {
		s := zzSeen{method: string(ctx.Method()), uri: string(ctx.Request.RequestURI()), cl: ctx.Request.Header.ContentLength()}
		var b []byte
		if readBody || !stream {
			b = append(b, ctx.Request.Body()...)
		}
		// header fields as the handler sees them
		b = append(b, '|')
		ctx.Request.Header.VisitAll(func(k, v []byte) {
			b = append(b, k...)
			b = append(b, '=')
			b = append(b, v...)
			b = append(b, ';')
		})
		// trailer fields (available once the body has been read)
		b = append(b, '|')
		if readBody || !stream {
			ctx.Request.Header.Trailer().VisitAll(func(k, v []byte) {
				b = append(b, k...)
				b = append(b, '=')
				b = append(b, v...)
				b = append(b, ';')
			})
		}
		res.seen = append(res.seen, s)
		res.bodies = append(res.bodies, b)
		ctx.Response.SetBodyString("r" + s.uri)
	})
	s := zzNewServer(core)
	s.StreamRequestBody = stream
	s.IdleTimeout = 1
	res.err = s.Serve(context.Background(), standard.ZZNewConn(nc))
	res.out = nc.Out
	return res
}

func zzSameRuns(a, b *zzRunResult) (sameCount, sameRequests, sameOutput bool) {
	sameCount = len(a.seen) == len(b.seen)
	sameRequests = sameCount
	if sameCount {
		for i := range a.seen {
			if a.seen[i].method != b.seen[i].method || a.seen[i].uri != b.seen[i].uri || !bytes.Equal(a.bodies[i], b.bodies[i]) {
				sameRequests = false
			}
		}
	}
	sameOutput = bytes.Equal(a.out, b.out)
	return
}

var zzC02Templates = []string{
	// 0: obs-folded header line followed by a fixed-length body and a pipelined request
	"POST /x HTTP/1.1\r\nHost: h\r\nX-A: a\r\n b\r\nContent-Length: 5\r\n\r\nhello" + zzSentinel,
	// 1: chunked body with trailer, then a pipelined request
	"POST /c HTTP/1.1\r\nHost: h\r\nTrailer: X-T\r\nTransfer-Encoding: chunked\r\n\r\n3\r\nabc\r\n2\r\nde\r\n0\r\nX-T: v\r\n\r\n" + zzSentinel,
	// 2: two plain requests
	"GET /a HTTP/1.1\r\nHost: h\r\nX-B: 1\r\n\r\n" + zzSentinel,
	// 3: header area with two structural wildcards (filled in below)
	"GET /w HTTP/1.1\r\nHost: h\r\nX-W: a??b\r\nX-C: c\r\n\r\n" + zzSentinel,
	// 4: empty lines before the request line (RFC 7230 3.5 robustness), then a pipelined request
	"\r\n\r\nGET /l HTTP/1.1\r\nHost: h\r\n\r\n" + zzSentinel,
	// 5: chunk sizes of two hex digits, no trailer, then a pipelined request
	"POST /d HTTP/1.1\r\nHost: h\r\nTransfer-Encoding: chunked\r\n\r\n1a\r\nabcdefghijklmnopqrstuvwxyz\r\n10\r\n0123456789ABCDEF\r\n0\r\n\r\n" + zzSentinel,
	// 6: trailer section with an obs-folded value
	"POST /e HTTP/1.1\r\nHost: h\r\nTrailer: Foo, X-U\r\nTransfer-Encoding: chunked\r\n\r\n3\r\nabc\r\n0\r\nFoo: bar\r\n baz\r\nX-U: w\r\n\r\n" + zzSentinel,
	// 7: trailer section whose first line is a field that is not allowed in a trailer
	"POST /f HTTP/1.1\r\nHost: h\r\nTrailer: Foo\r\nTransfer-Encoding: chunked\r\n\r\n3\r\nabc\r\n0\r\nContent-Length: 3\r\nFoo: bar\r\n\r\n" + zzSentinel,
	// 8: a complete request followed by a follow-up that the peer never finishes
	"GET /g HTTP/1.1\r\nHost: h\r\n\r\nPOST /h HTTP/1.1\r\nHost: h\r\nContent-Length: 5\r\n\r\nab",
}

// ZZ_C02_H1: the same byte stream delivered whole and delivered cut at a split point (every
// position) yields identical handler-visible requests and identical response bytes.
func ZZ_C02_H1() {
	t := zz.Choose("tmpl", len(zzC02Templates))
	wire := []byte(zzC02Templates[t])
	if t == 3 {
		w := zz.Bytes("wild", 2)
		for _, c := range w {
			zz.Assume(c == '\r' || c == '\n' || c == ' ' || c == '\t' || c == ':' || c == 'a')
		}
		i := bytes.IndexByte(wire, '?')
		wire[i], wire[i+1] = w[0], w[1]
	}
	stream := zz.Choose("stream", 2) == 1
	nsplit := zz.Range("nsplit", 0, zz.Param("SPLITS", 1)) // 0 = byte-at-a-time delivery
	var splits []int
	prev := 0
	if nsplit == 0 {
		for i := 1; i < len(wire); i++ {
			splits = append(splits, i)
		}
	}
	for i := 0; i < nsplit; i++ {
		s := zz.Range("split", prev+1, len(wire)-1)
		splits = append(splits, s)
		prev = s
		if prev >= len(wire)-1 {
			break
		}
	}
	readBody := true
	if stream {
		readBody = zz.Choose("handlerReadsBody", 2) == 1
	}
	whole := zzRunSplit2(append([]byte(nil), wire...), nil, stream, readBody)
	cut := zzRunSplit2(append([]byte(nil), wire...), splits, stream, readBody)
	zz.Cover("reached-assert", true)
	zz.Cover("two-requests-served", len(whole.seen) == 2)
	a, b, c := zzSameRuns(whole, cut)
	zz.Assert("same-number-of-requests", a)
	zz.Assert("same-requests", b)
	zz.Assert("same-response-bytes", c)
}
