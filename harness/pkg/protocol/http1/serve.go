//go:build verif

package http1

import (
	"context"
	"sync"

	zz "github.com/cloudwego/hertz/internal/zzverif"
	"github.com/cloudwego/hertz/pkg/app"
	"github.com/cloudwego/hertz/pkg/common/tracer"
	"github.com/cloudwego/hertz/pkg/network/standard"
)

// zzCore is the harness's suite.Core: real context pool, harness handler.
type zzCore struct {
	pool    sync.Pool
	handler func(c context.Context, ctx *app.RequestContext)
	running func() bool
	tracer  tracer.Controller
	served  int
}

func (c *zzCore) IsRunning() bool {
	if c.running != nil {
		return c.running()
	}
	return true
}
func (c *zzCore) GetCtxPool() *sync.Pool { return &c.pool }
func (c *zzCore) ServeHTTP(cc context.Context, ctx *app.RequestContext) {
	c.served++
	if c.handler != nil {
		c.handler(cc, ctx)
	}
}
func (c *zzCore) GetTracer() tracer.Controller { return c.tracer }

func zzNewCore(h func(c context.Context, ctx *app.RequestContext)) *zzCore {
	core := &zzCore{handler: h}
	core.pool.New = func() interface{} {
		// as route.Engine.allocateContext does (default MaxKeepBodySize)
		ctx := app.NewContext(0)
		ctx.Request.SetMaxKeepBodySize(4 * 1024 * 1024)
		ctx.Response.SetMaxKeepBodySize(4 * 1024 * 1024)
		return ctx
	}
	return core
}

// seen is what a handler invocation observed.
type zzSeen struct {
	method, uri, body string
	cl                int
}

// ---- strict response reader (independent decoder used as oracle) ----

type zzResp struct {
	status   int
	clen     int // -1: none
	chunked  bool
	close    bool
	body     []byte
	nheaders int
}

func zzIsDigit(c byte) bool { return c >= '0' && c <= '9' }

func zzHasPrefix(b []byte, s string) bool {
	if len(b) < len(s) {
		return false
	}
	for i := 0; i < len(s); i++ {
		if b[i] != s[i] {
			return false
		}
	}
	return true
}

func zzEqFold(b []byte, s string) bool {
	if len(b) != len(s) {
		return false
	}
	for i := 0; i < len(s); i++ {
		c := b[i]
		if c >= 'A' && c <= 'Z' {
			c += 32
		}
		if c != s[i] {
			return false
		}
	}
	return true
}

// zzReadResponse parses one response at b[0:], for a request with the given method.
// Returns the number of bytes consumed; ok=false if the bytes are not one well-formed message.
func zzReadResponse(b []byte, head bool) (r zzResp, n int, ok bool) {
	r.clen = -1
	if !zzHasPrefix(b, "HTTP/1.1 ") || len(b) < 15 {
		return r, 0, false
	}
	if !zzIsDigit(b[9]) || !zzIsDigit(b[10]) || !zzIsDigit(b[11]) || b[12] != ' ' {
		return r, 0, false
	}
	r.status = int(b[9]-'0')*100 + int(b[10]-'0')*10 + int(b[11]-'0')
	i := 13
	for i+1 < len(b) && !(b[i] == '\r' && b[i+1] == '\n') {
		if b[i] == '\n' {
			return r, 0, false
		}
		i++
	}
	if i+1 >= len(b) {
		return r, 0, false
	}
	i += 2
	for {
		if i+1 >= len(b) {
			return r, 0, false
		}
		if b[i] == '\r' && b[i+1] == '\n' {
			i += 2
			break
		}
		ks := i
		for i < len(b) && b[i] != ':' {
			if b[i] <= ' ' || b[i] == 0x7f {
				return r, 0, false
			}
			i++
		}
		if i >= len(b) || i == ks {
			return r, 0, false
		}
		key := b[ks:i]
		i++
		for i < len(b) && b[i] == ' ' {
			i++
		}
		vs := i
		for i+1 < len(b) && !(b[i] == '\r' && b[i+1] == '\n') {
			if b[i] == '\n' || b[i] == '\r' {
				return r, 0, false
			}
			i++
		}
		if i+1 >= len(b) {
			return r, 0, false
		}
		val := b[vs:i]
		i += 2
		r.nheaders++
		switch {
		case zzEqFold(key, "content-length"):
			if r.clen >= 0 || len(val) == 0 {
				return r, 0, false
			}
			v := 0
			for _, c := range val {
				if !zzIsDigit(c) {
					return r, 0, false
				}
				v = v*10 + int(c-'0')
			}
			r.clen = v
		case zzEqFold(key, "transfer-encoding"):
			if !zzEqFold(val, "chunked") {
				return r, 0, false
			}
			r.chunked = true
		case zzEqFold(key, "connection"):
			if zzEqFold(val, "close") {
				r.close = true
			}
		}
	}
	// framing (RFC 7230 3.3.3)
	bodiless := head || r.status/100 == 1 || r.status == 204 || r.status == 304
	if bodiless {
		return r, i, true
	}
	if r.chunked {
		if r.clen >= 0 {
			return r, 0, false
		}
		for {
			// chunk size line
			sz := 0
			nd := 0
			for i < len(b) {
				c := b[i]
				var d int
				switch {
				case c >= '0' && c <= '9':
					d = int(c - '0')
				case c >= 'a' && c <= 'f':
					d = int(c-'a') + 10
				case c >= 'A' && c <= 'F':
					d = int(c-'A') + 10
				default:
					d = -1
				}
				if d < 0 {
					break
				}
				sz = sz*16 + d
				nd++
				i++
			}
			if nd == 0 || i+1 >= len(b) || b[i] != '\r' || b[i+1] != '\n' {
				return r, 0, false
			}
			i += 2
			if sz == 0 {
				// trailer section: lines until empty line
				for {
					if i+1 >= len(b) {
						return r, 0, false
					}
					if b[i] == '\r' && b[i+1] == '\n' {
						return r, i + 2, true
					}
					for i+1 < len(b) && !(b[i] == '\r' && b[i+1] == '\n') {
						i++
					}
					if i+1 >= len(b) {
						return r, 0, false
					}
					i += 2
				}
			}
			if i+sz+2 > len(b) {
				return r, 0, false
			}
			r.body = append(r.body, b[i:i+sz]...)
			i += sz
			if b[i] != '\r' || b[i+1] != '\n' {
				return r, 0, false
			}
			i += 2
		}
	}
	if r.clen >= 0 {
		if i+r.clen > len(b) {
			return r, 0, false
		}
		r.body = b[i : i+r.clen]
		return r, i + r.clen, true
	}
	// read-until-close
	r.body = b[i:]
	r.close = true
	return r, len(b), true
}

func zzNewServer(core *zzCore) *Server {
	s := NewServer()
	s.Core = core
	s.NoDefaultDate = true
	s.NoDefaultServerHeader = true
	s.DisablePreParseMultipartForm = true
	s.MaxRequestBodySize = 4 * 1024 * 1024
	return s
}

var zzTemplates = []struct {
	wire, method, uri, body string
	closes                  bool
}{
	{"GET /a HTTP/1.1\r\nHost: h\r\n\r\n", "GET", "/a", "", false},
	{"POST /b HTTP/1.1\r\nHost: h\r\nContent-Length: 5\r\n\r\nhello", "POST", "/b", "hello", false},
	{"POST /c HTTP/1.1\r\nHost: h\r\nTransfer-Encoding: chunked\r\n\r\n3\r\nabc\r\n2\r\nde\r\n0\r\n\r\n", "POST", "/c", "abcde", false},
	{"PUT /d HTTP/1.1\r\nHost: h\r\nContent-Length: 0\r\n\r\n", "PUT", "/d", "", false},
	{"POST /e HTTP/1.1\r\nHost: h\r\nExpect: 100-continue\r\nContent-Length: 2\r\n\r\nhi", "POST", "/e", "hi", false},
	{"GET /f HTTP/1.1\r\nHost: h\r\nConnection: close\r\n\r\n", "GET", "/f", "", true},
	{"HEAD /g HTTP/1.1\r\nHost: h\r\n\r\n", "HEAD", "/g", "", false},
	{"POST /h HTTP/1.1\r\nHost: h\r\nExpect: 100-continue\r\nTransfer-Encoding: chunked\r\n\r\n2\r\nhi\r\n0\r\n\r\n", "POST", "/h", "hi", false},
	{"POST /i HTTP/1.0\r\nHost: h\r\nConnection: keep-alive\r\nContent-Length: 1\r\n\r\nx", "POST", "/i", "x", false},
	// methods that usually have no body, with one: framing is by Content-Length / chunked all the same
	{"GET /j HTTP/1.1\r\nHost: h\r\nContent-Length: 2\r\n\r\nhi", "GET", "/j", "hi", false},
	{"HEAD /k HTTP/1.1\r\nHost: h\r\nTransfer-Encoding: chunked\r\n\r\n2\r\nhi\r\n0\r\n\r\n", "HEAD", "/k", "hi", false},
}

// zzBodyOffsets: where the body bytes of template t sit in its wire text.
func zzBodyOffsets(t int) []int {
	w := zzTemplates[t].wire
	he := 0
	for i := 0; i+3 < len(w); i++ {
		if w[i:i+4] == "\r\n\r\n" {
			he = i + 4
			break
		}
	}
	switch t {
	case 1:
		return []int{he, he + 1, he + 2, he + 3, he + 4}
	case 2:
		return []int{he + 3, he + 4, he + 5, he + 11, he + 12}
	case 4:
		return []int{he, he + 1}
	case 7:
		return []int{he + 3, he + 4}
	case 8:
		return []int{he}
	case 9:
		return []int{he, he + 1}
	case 10:
		return []int{he + 3, he + 4}
	}
	return nil
}

// ZZ_C01_H4: k pipelined requests chosen from the template set, delivered under a symbolic
// fragment size, are handled once each, in order, each handler seeing exactly its own method,
// target and body; exactly one response per request is written, in the same order.
func ZZ_C01_H4() {
	k := zz.Range("k", 1, zz.Param("K", 2))
	var wire []byte
	var want []int
	var bodies [][]byte
	for i := 0; i < k; i++ {
		t := zz.Choose("tmpl", len(zzTemplates))
		want = append(want, t)
		// the body bytes of the template are replaced by symbolic bytes
		at := len(wire)
		wire = append(wire, zzTemplates[t].wire...)
		offs := zzBodyOffsets(t)
		sym := zz.Bytes("body", len(offs))
		for j, o := range offs {
			wire[at+o] = sym[j]
		}
		bodies = append(bodies, sym)
		if zzTemplates[t].closes {
			break
		}
	}
	stream := zz.Choose("stream", 2) == 1
	editsRequest := zz.Choose("handlerEditsItsRequestHeader", 2) == 1
	nc := zz.NewNetConn(wire)
	frag := zz.Range("frag", 1, zz.Param("FRAG", 3))
	if frag < zz.Param("FRAG", 3) {
		// small fragment sizes: 1..FRAG-1 bytes per read; the last value means "everything at once"
		nc.Frag = func(rem int) int { return frag }
	}
	var seen []zzSeen
	core := zzNewCore(func(c context.Context, ctx *app.RequestContext) {
		s := zzSeen{method: string(ctx.Method()), uri: string(ctx.Request.RequestURI()), cl: ctx.Request.Header.ContentLength()}
		s.body = string(ctx.Request.Body())
		seen = append(seen, s)
		ctx.Response.SetBodyString("r" + string(ctx.Request.RequestURI()))
		if editsRequest {
			// a handler that reuses its request object (e.g. for an upstream call) and marks it
			// "Connection: close": whether the client's connection is kept follows the wire
			ctx.Request.Header.Set("Connection", "close")
		}
	})
	s := zzNewServer(core)
	s.StreamRequestBody = stream
	s.IdleTimeout = 1
	conn := standard.ZZNewConn(nc)
	_ = s.Serve(context.Background(), conn)
	zz.Observe("out", nc.Out)
	zz.Cover("reached-assert", true)
	zz.Cover("two-requests", len(want) >= 2)
	zz.Assert("one-handler-call-per-request", len(seen) == len(want))
	if len(seen) != len(want) {
		return
	}
	ok := true
	for i, t := range want {
		tp := zzTemplates[t]
		if seen[i].method != tp.method || seen[i].uri != tp.uri || seen[i].body != string(bodies[i]) {
			ok = false
		}
	}
	zz.Assert("each-handler-sees-its-own-request", ok)
	// responses
	out := nc.Out
	pos := 0
	rok := true
	for _, t := range want {
		tp := zzTemplates[t]
		if (tp.uri == "/e" || tp.uri == "/h") && zzHasPrefix(out[pos:], "HTTP/1.1 100 Continue\r\n\r\n") {
			pos += len("HTTP/1.1 100 Continue\r\n\r\n")
		}
		r, n, ok := zzReadResponse(out[pos:], tp.method == "HEAD")
		if !ok || r.status != 200 {
			rok = false
			break
		}
		if tp.method != "HEAD" && string(r.body) != "r"+tp.uri {
			rok = false
			break
		}
		pos += n
	}
	zz.Assert("one-response-per-request-in-order", rok)
	if rok {
		zz.Assert("nothing-after-last-response", pos == len(out))
	}
}
