//go:build verif

package http1

import (
	zz "github.com/cloudwego/hertz/internal/zzverif"
	"github.com/cloudwego/hertz/pkg/app"
	"github.com/cloudwego/hertz/pkg/protocol"
)

// strict line reader (same rule as in the pkg/protocol harness): every line ends in CRLF, no
// bare CR or LF anywhere, the block ends with an empty line.
func zzStrictHeaderLines(b []byte) (lines int, ok bool) {
	start := 0
	i := 0
	for i < len(b) {
		c := b[i]
		if c == '\n' {
			return 0, false
		}
		if c == '\r' {
			if i+1 >= len(b) || b[i+1] != '\n' {
				return 0, false
			}
			if i == start {
				return lines, i+2 == len(b)
			}
			lines++
			i += 2
			start = i
			continue
		}
		i++
	}
	return 0, false
}

// ZZ_C05_CTX: the RequestContext helpers named by the property (Header, SetCookie, Redirect,
// SetContentType) with symbolic bytes in every textual argument.
func ZZ_C05_CTX() {
	ep := zz.Choose("entry", 8)
	n := zz.Range("n", 0, zz.Param("V", 3))
	val := zz.Bytes("val", n)
	s := string(val)
	apply := func(ctx *app.RequestContext, s string) {
		switch ep {
		case 0:
			ctx.Header("X-A", s)
		case 1:
			if len(s) > 0 {
				ctx.Header(s, "v")
			}
		case 2:
			ctx.SetCookie("k", s, 1, "/", "d", protocol.CookieSameSiteLaxMode, true, true)
		case 3:
			ctx.SetCookie(s, "v", 0, "/", "d", protocol.CookieSameSiteDefaultMode, false, false)
		case 4:
			ctx.SetCookie("k", "v", 0, s, "d", protocol.CookieSameSiteDisabled, false, false)
		case 5:
			ctx.SetCookie("k", "v", 0, "/", s, protocol.CookieSameSiteNoneMode, true, false)
		case 6:
			ctx.Redirect(302, []byte(s))
		case 7:
			ctx.SetContentType(s)
		}
	}
	base := app.NewContext(0)
	base.Response.Header.SetNoDefaultDate(true)
	apply(base, "x")
	baseLines, baseOK := zzStrictHeaderLines(base.Response.Header.Header())
	zz.Assume(baseOK)
	ctx := app.NewContext(0)
	ctx.Response.Header.SetNoDefaultDate(true)
	apply(ctx, s)
	out := ctx.Response.Header.Header()
	zz.Observe("out", out)
	lines, ok := zzStrictHeaderLines(out)
	zz.Cover("reached-assert", true)
	zz.Assert("well-formed-lines", ok)
	if ok {
		zz.Assert("no-extra-line", lines <= baseLines)
	}
}
