//go:build verif

package http1

import (
	"bytes"
	"context"

	zz "github.com/cloudwego/hertz/internal/zzverif"
	"github.com/cloudwego/hertz/pkg/app"
	"github.com/cloudwego/hertz/pkg/network/standard"
)

// zzRun serves wire on one connection with a recording handler.
type zzRunResult struct {
	seen   []zzSeen
	bodies [][]byte
	out    []byte
	err    error
	nc     *zz.NetConn
}

func zzRun(wire []byte, frag int, stream bool, tweak func(s *Server)) *zzRunResult {
	res := &zzRunResult{}
	nc := zz.NewNetConn(wire)
	if frag > 0 {
		nc.Frag = func(rem int) int { return frag }
	}
	res.nc = nc
	core := zzNewCore(func(c context.Context, ctx *app.RequestContext) {
		s := zzSeen{method: string(ctx.Method()), uri: string(ctx.Request.RequestURI()), cl: ctx.Request.Header.ContentLength()}
		b := append([]byte(nil), ctx.Request.Body()...)
		res.seen = append(res.seen, s)
		res.bodies = append(res.bodies, b)
		ctx.Response.SetBodyString("r" + s.uri)
	})
	s := zzNewServer(core)
	s.StreamRequestBody = stream
	s.IdleTimeout = 1
	if tweak != nil {
		tweak(s)
	}
	res.err = s.Serve(context.Background(), standard.ZZNewConn(nc))
	res.out = nc.Out
	return res
}

const zzSentinel = "GET /s HTTP/1.1\r\nHost: h\r\n\r\n"

func zzStripOWS(b []byte, tab bool) []byte {
	for len(b) > 0 && (b[0] == ' ' || (tab && b[0] == '\t')) {
		b = b[1:]
	}
	for len(b) > 0 && (b[len(b)-1] == ' ' || (tab && b[len(b)-1] == '\t')) {
		b = b[:len(b)-1]
	}
	return b
}

// Content-Length value: OWS 1*DIGIT OWS. With tab=false only SP counts as OWS (every spelling
// accepted this way must be framed); with tab=true HTAB counts too (every spelling rejected even
// this way must be refused). Spellings valid only thanks to HTAB may go either way: refusing a
// legal but unusual spelling is not a framing error, so they are in neither obligation.
func zzRefCL(d []byte, tab bool) (int, bool) {
	d = zzStripOWS(d, tab)
	if len(d) == 0 {
		return 0, false
	}
	v := 0
	for _, c := range d {
		if c < '0' || c > '9' {
			return 0, false
		}
		v = v*10 + int(c-'0')
	}
	return v, true
}

// zzOneErrorResponse: out is exactly one 4xx response with Connection: close and nothing else.
func zzOneErrorResponse(out []byte) (status int, ok bool) {
	r, n, ok := zzReadResponse(out, false)
	if !ok {
		return 0, false
	}
	return r.status, r.close && n == len(out) && r.status >= 400 && r.status < 500
}

// ZZ_C01_H2: fixed-length accounting. The Content-Length value is spelled with symbolic bytes.
// Every spelling the strict grammar accepts with value v frames exactly v body bytes (symbolic
// content) and leaves the connection at the first byte of the next request; every spelling it
// rejects gets one 400 + Connection: close and no handler call (C03 clause).
func ZZ_C01_H2() {
	dl := zz.Range("dl", 1, zz.Param("D", 2))
	d := zz.Bytes("clvalue", dl)
	for _, c := range d {
		zz.Assume(c != '\r' && c != '\n') // would change the header structure itself
	}
	refv, refok := zzRefCL(d, false)
	_, lenientOK := zzRefCL(d, true)
	valid := zz.Choose("valid", 2) == 1
	frag := zz.Range("frag", 0, zz.Param("FRAG", 1))
	stream := zz.Choose("stream", 2) == 1
	hdr := append([]byte("POST /b HTTP/1.1\r\nHost: h\r\nContent-Length: "), d...)
	hdr = append(hdr, "\r\n\r\n"...)
	if valid {
		v := zz.Range("v", 0, zz.Param("V", 3))
		zz.Assume(refok && refv == v)
		body := zz.Bytes("body", v)
		wire := append(append(hdr, body...), zzSentinel...)
		r := zzRun(wire, frag, stream, nil)
		zz.Cover("valid-reached", true)
		zz.Assert("two-handler-calls", len(r.seen) == 2)
		if len(r.seen) != 2 {
			return
		}
		zz.Assert("first-is-post", r.seen[0].method == "POST" && r.seen[0].uri == "/b")
		zz.Assert("body-is-exactly-the-framed-bytes", bytes.Equal(r.bodies[0], body))
		zz.Assert("next-request-starts-after-body", r.seen[1].method == "GET" && r.seen[1].uri == "/s" && len(r.bodies[1]) == 0)
		return
	}
	zz.Assume(!lenientOK)
	wire := append(hdr, "xyz"...)
	r := zzRun(wire, frag, stream, nil)
	zz.Cover("invalid-reached", true)
	zz.Assert("no-handler-for-rejected-request", len(r.seen) == 0)
	st, ok := zzOneErrorResponse(r.out)
	zz.Assert("exactly-one-4xx-with-connection-close", ok)
	zz.Assert("status-400", !ok || st == 400)
}

func zzRefHex(d []byte) (int, bool) {
	if len(d) == 0 {
		return 0, false
	}
	v := 0
	for _, c := range d {
		switch {
		case c >= '0' && c <= '9':
			v = v*16 + int(c-'0')
		case c >= 'a' && c <= 'f':
			v = v*16 + int(c-'a') + 10
		case c >= 'A' && c <= 'F':
			v = v*16 + int(c-'A') + 10
		default:
			return 0, false
		}
	}
	return v, true
}

// ZZ_C01_H3: chunked accounting. Chunk-size lines are spelled with symbolic bytes (hex case,
// leading zeros), payload bytes are symbolic (may contain CR/LF). The body delivered is the
// concatenation of the payloads, the trailer section is consumed and the next request starts
// right after it.
func ZZ_C01_H3() {
	nch := zz.Range("chunks", 1, zz.Param("C", 2))
	frag := zz.Range("frag", 0, zz.Param("FRAG", 1))
	stream := zz.Choose("stream", 2) == 1
	trailer := zz.Choose("trailer", 2) == 1
	wire := []byte("POST /c HTTP/1.1\r\nHost: h\r\nTransfer-Encoding: chunked\r\n\r\n")
	var want []byte
	for i := 0; i < nch; i++ {
		sz := zz.Range("size", 1, zz.Param("S", 2))
		sl := zz.Range("sizelen", 1, zz.Param("SL", 2))
		sp := zz.Bytes("sizetext", sl)
		v, ok := zzRefHex(sp)
		zz.Assume(ok && v == sz)
		pl := zz.Bytes("payload", sz)
		wire = append(wire, sp...)
		wire = append(wire, "\r\n"...)
		wire = append(wire, pl...)
		wire = append(wire, "\r\n"...)
		want = append(want, pl...)
	}
	wire = append(wire, "0\r\n"...)
	if trailer {
		wire = append(wire, "X-T: v\r\n"...)
	}
	wire = append(wire, "\r\n"...)
	wire = append(wire, zzSentinel...)
	r := zzRun(wire, frag, stream, nil)
	zz.Cover("reached-assert", true)
	zz.Cover("two-chunks", nch >= 2)
	zz.Assert("two-handler-calls", len(r.seen) == 2)
	if len(r.seen) != 2 {
		return
	}
	zz.Assert("body-is-concatenation-of-chunks", bytes.Equal(r.bodies[0], want))
	zz.Assert("next-request-starts-after-trailer", r.seen[1].method == "GET" && r.seen[1].uri == "/s" && len(r.bodies[1]) == 0)
}

func zzItoa(n int) []byte {
	if n == 0 {
		return []byte("0")
	}
	var b []byte
	for n > 0 {
		b = append([]byte{byte('0' + n%10)}, b...)
		n /= 10
	}
	return b
}

// ZZ_C01_BIG: fixed-length and chunked bodies whose lengths sit around the connection's buffer
// boundaries (4 KiB, 8 KiB; symbolic bytes at the boundaries), delivered whole or in 1000-,
// 4096- or 5000-byte reads, buffered and streaming: the handler sees exactly the body, and the
// pipelined request behind it is handled intact.
func ZZ_C01_BIG() {
	base := []int{4096, 8192}[zz.Choose("base", 2)]
	n := base + zz.Range("delta", -1, 1)
	chunked := zz.Choose("chunked", 2) == 1
	stream := zz.Choose("stream", 2) == 1
	frag := []int{0, 1000, 4096, 5000}[zz.Choose("frag", 4)]
	body := make([]byte, n)
	for i := range body {
		body[i] = byte('a' + i%26)
	}
	sym := zz.Bytes("boundarybytes", 3)
	body[0], body[n/2], body[n-1] = sym[0], sym[1], sym[2]
	var wire []byte
	if !chunked {
		wire = append([]byte("POST /b HTTP/1.1\r\nHost: h\r\nContent-Length: "), zzItoa(n)...)
		wire = append(wire, "\r\n\r\n"...)
		wire = append(wire, body...)
	} else {
		wire = []byte("POST /b HTTP/1.1\r\nHost: h\r\nTransfer-Encoding: chunked\r\n\r\n")
		// two chunks: 4000 bytes and the rest
		first := 4000
		hex := func(v int) []byte {
			const d = "0123456789abcdef"
			var b []byte
			for v > 0 {
				b = append([]byte{d[v%16]}, b...)
				v /= 16
			}
			return b
		}
		wire = append(wire, hex(first)...)
		wire = append(wire, "\r\n"...)
		wire = append(wire, body[:first]...)
		wire = append(wire, "\r\n"...)
		wire = append(wire, hex(n-first)...)
		wire = append(wire, "\r\n"...)
		wire = append(wire, body[first:]...)
		wire = append(wire, "\r\n0\r\n\r\n"...)
	}
	wire = append(wire, zzSentinel...)
	r := zzRun(wire, frag, stream, nil)
	zz.Cover("reached-assert", true)
	zz.Assert("two-handler-calls", len(r.seen) == 2)
	if len(r.seen) != 2 {
		return
	}
	zz.Assert("body-is-exactly-the-framed-bytes", bytes.Equal(r.bodies[0], body))
	zz.Assert("next-request-intact", r.seen[1].method == "GET" && r.seen[1].uri == "/s" && len(r.bodies[1]) == 0)
}

// ZZ_C01_MP: a multipart/form-data request with the server's default pre-parsing of forms. The
// form is followed, inside the declared Content-Length, by an epilogue (RFC 2046 allows text
// after the closing delimiter) of a length around the parser's read-ahead sizes; the pipelined
// sentinel must be handled as itself: every byte of the declared body belongs to the first
// request whether or not the form parser looked at it.
func ZZ_C01_MP() {
	epi := []int{0, 1, 100, 4000, 4096, 5000, 9000}[zz.Choose("epilogue", 7)]
	val := zz.Bytes("fieldvalue", 2)
	for _, c := range val {
		zz.Assume(c != '\r' && c != '\n' && c != '-')
	}
	mp := []byte("--b\r\nContent-Disposition: form-data; name=\"f\"\r\n\r\n")
	mp = append(mp, val...)
	mp = append(mp, "\r\n--b--\r\n"...)
	for i := 0; i < epi; i++ {
		mp = append(mp, 'e')
	}
	wire := []byte("POST /a HTTP/1.1\r\nHost: h\r\nContent-Type: multipart/form-data; boundary=b\r\nContent-Length: ")
	wire = append(wire, zzItoa(len(mp))...)
	wire = append(wire, "\r\n\r\n"...)
	wire = append(wire, mp...)
	wire = append(wire, zzSentinel...)
	frag := []int{0, 1000}[zz.Choose("frag", 2)]
	nc := zz.NewNetConn(wire)
	if frag > 0 {
		nc.Frag = func(rem int) int { return frag }
	}
	var seen []zzSeen
	var form []byte
	core := zzNewCore(func(c context.Context, ctx *app.RequestContext) {
		s := zzSeen{method: string(ctx.Method()), uri: string(ctx.Request.RequestURI())}
		seen = append(seen, s)
		if len(seen) == 1 {
			form = append(form, ctx.FormValue("f")...)
		}
	})
	s := zzNewServer(core)
	s.DisablePreParseMultipartForm = false
	s.IdleTimeout = 1
	_ = s.Serve(context.Background(), standard.ZZNewConn(nc))
	zz.Cover("reached-assert", true)
	zz.Assert("two-requests-handled", len(seen) == 2)
	if len(seen) >= 1 {
		zz.Assert("form-field-value", bytes.Equal(form, val))
	}
	if len(seen) >= 2 {
		zz.Assert("next-request-is-the-sentinel", seen[1].method == "GET" && seen[1].uri == "/s")
	}
}
