//go:build verif

package http1

import (
	"bytes"
	"context"
	"io"

	zz "github.com/cloudwego/hertz/internal/zzverif"
	"github.com/cloudwego/hertz/pkg/app"
	"github.com/cloudwego/hertz/pkg/network/standard"
	"github.com/cloudwego/hertz/pkg/protocol/consts"
	"github.com/cloudwego/hertz/pkg/protocol/http1/resp"
)

var zzStatuses = []int{200, 201, 204, 304, 404, 500, 599, 101, 100}

type zzProg struct {
	status  int
	mode    int // 0 none, 1 SetBody, 2 AppendBody x2, 3 stream len, 4 stream -1, 5 LimitedReader, 6 chunked writer, 7 AbortWithMsg, 8 NotFound, 9 stream -2, 10 sized stream replaced by stream -1, 11 stream -1 replaced by SetBody, 12 Content-Length header set by hand, then stream -1
	body    []byte
	first   bool // set status before (true) or after (false) the body call
	close   bool
	flushes int  // mode 6: flush after each write (1) or not (0)
	cut     int  // mode 6: the body is written as body[:cut], body[cut:]
	hv      byte // a symbolic byte in the value of a header field the handler sets
}

func zzApply(ctx *app.RequestContext, p *zzProg) {
	if p.mode == 6 {
		// the chunked writer sends the header block with its first write, so status and
		// headers have to be decided before writing (API contract, not a finding)
		ctx.SetStatusCode(p.status)
		if p.close {
			ctx.Response.Header.SetConnectionClose(true)
		}
		ctx.Response.Header.Set("X-P", string([]byte{'v', p.hv}))
	}
	if p.first {
		ctx.SetStatusCode(p.status)
	}
	b := p.body
	switch p.mode {
	case 1:
		ctx.Response.SetBody(b)
	case 2:
		h := len(b) / 2
		ctx.Response.AppendBody(b[:h])
		ctx.Response.AppendBody(b[h:])
	case 3:
		ctx.Response.SetBodyStream(bytes.NewReader(b), len(b))
	case 4:
		ctx.Response.SetBodyStream(bytes.NewReader(b), -1)
	case 5:
		ctx.Response.SetBodyStream(io.LimitReader(bytes.NewReader(b), int64(len(b))), -1)
	case 9:
		ctx.Response.SetBodyStream(bytes.NewReader(b), -2) // "identity": length unknown as well
	case 10:
		// the handler changes its mind: a body of known length is replaced by one of unknown length
		ctx.Response.SetBodyStream(bytes.NewReader([]byte("0123456789")), 10)
		ctx.Response.SetBodyStream(bytes.NewReader(b), -1)
	case 11:
		ctx.Response.SetBodyStream(bytes.NewReader([]byte("0123456789")), -1)
		ctx.Response.SetBody(b)
	case 12:
		ctx.Response.Header.Set("Content-Length", "7")
		ctx.Response.SetBodyStream(bytes.NewReader(b), -1)
	case 6:
		w := resp.NewChunkedBodyWriter(&ctx.Response, ctx.GetWriter())
		ctx.Response.HijackWriter(w)
		// two writes at every split point of the body, empty writes included
		h := p.cut
		w.Write(b[:h]) //nolint:errcheck
		if p.flushes == 1 {
			w.Flush() //nolint:errcheck
		}
		w.Write(b[h:]) //nolint:errcheck
	case 7:
		ctx.AbortWithMsg(string(b), p.status)
		ctx.Response.Header.SetNoDefaultDate(true) // Reset re-enabled the (time-dependent) Date header
	case 8:
		ctx.NotFound()
		ctx.Response.Header.SetNoDefaultDate(true)
	}
	if !p.first && (p.mode < 7 || p.mode >= 9) {
		ctx.SetStatusCode(p.status)
	}
	if p.close {
		ctx.Response.Header.SetConnectionClose(true)
	}
	ctx.Response.Header.Set("X-P", string([]byte{'v', p.hv}))
}

func zzChooseProg(i int) *zzProg {
	p := &zzProg{}
	p.status = zzStatuses[zz.Choose("status", zz.Param("NSTATUS", 7))]
	p.mode = zz.Choose("mode", 13)
	l := zz.Range("len", 0, zz.Param("L", 3))
	p.body = zz.Bytes("body", l)
	p.hv = zz.Byte("headerValueByte")
	p.first = zz.Choose("statusfirst", 2) == 1
	p.close = zz.Choose("close", 2) == 1
	if p.mode == 6 {
		p.flushes = zz.Choose("flush", 2)
		p.cut = zz.Range("cut", 0, l)
	}
	if p.mode == 7 || p.mode == 8 {
		p.first = false // these helpers reset the response and set the status themselves
	}
	if p.mode == 8 {
		p.status = 404
		p.body = []byte(consts.StatusMessage(404))
	}
	return p
}

// ZZ_C04_H1: every response a handler produces through the standard APIs is one well-formed,
// correctly framed message: an independent strict reader decodes the bytes on the wire to the
// same status and body (symbolic bytes), bodiless statuses and HEAD carry no body, and the next
// response on the connection starts exactly where this one ends.
func ZZ_C04_H1() {
	n := zz.Range("responses", 1, zz.Param("K", 1))
	var progs []*zzProg
	var heads []bool
	var wire []byte
	for i := 0; i < n; i++ {
		head := zz.Choose("head", 2) == 1
		heads = append(heads, head)
		if head {
			wire = append(wire, "HEAD /x HTTP/1.1\r\nHost: h\r\n\r\n"...)
		} else {
			wire = append(wire, "GET /x HTTP/1.1\r\nHost: h\r\n\r\n"...)
		}
		progs = append(progs, zzChooseProg(i))
	}
	nc := zz.NewNetConn(wire)
	k := 0
	core := zzNewCore(func(c context.Context, ctx *app.RequestContext) {
		if k < len(progs) {
			zzApply(ctx, progs[k])
		}
		k++
	})
	s := zzNewServer(core)
	s.IdleTimeout = 1
	_ = s.Serve(context.Background(), standard.ZZNewConn(nc))
	out := nc.Out
	zz.Observe("out", out)
	zz.Cover("reached-assert", true)
	pos := 0
	for i, p := range progs {
		if i >= k {
			break
		}
		// documented exclusion: the hijacked chunked writer on a response that may not have a body
		bodiless := heads[i] || p.status/100 == 1 || p.status == 204 || p.status == 304
		if p.mode == 6 && bodiless {
			zz.Cover("excluded-hijack-on-bodiless", true)
			return
		}
		r, used, ok := zzReadResponse(out[pos:], heads[i])
		zz.Assert("well-formed-single-message", ok)
		if !ok {
			return
		}
		zz.Assert("status", r.status == p.status)
		if bodiless {
			zz.Cover("bodiless", true)
			zz.Assert("no-body-bytes-on-bodiless-response", len(r.body) == 0)
			if !heads[i] {
				zz.Assert("no-framing-header-on-bodiless-status", !r.chunked)
			}
		} else {
			want := p.body
			if p.mode == 0 {
				want = nil
			}
			zz.Cover("with-body", len(want) > 0)
			zz.Assert("body-bytes", bytes.Equal(r.body, want))
			zz.Assert("framing-present", r.chunked || r.clen >= 0)
		}
		pos += used
		if p.close || r.close {
			zz.Assert("close-announced-when-requested", !p.close || r.close)
			break
		}
	}
	zz.Assert("nothing-but-the-responses-on-the-wire", pos == len(out))
}

// zzBigBody: n bytes of a position-dependent pattern with symbolic bytes at the buffer
// boundaries (0, 4095, 4096, n-1).
func zzBigBody(n int) []byte {
	b := make([]byte, n)
	for i := range b {
		b[i] = byte('a' + i%23 + (i/4096)%3)
	}
	sym := zz.Bytes("boundarybytes", 4)
	b[0], b[4095], b[4096], b[n-1] = sym[0], sym[1], sym[2], sym[3]
	return b
}

// ZZ_C04_BIG: a streamed response body that spans several 4 KiB copy buffers arrives intact
// (buffers handed to the connection writer must not be reused before they are flushed).
func ZZ_C04_BIG() {
	n := 8192 + zz.Range("extra", 1, 3)
	mode := zz.Choose("mode", 3) // 0 unknown length (chunked), 1 known length, 2 SetBody
	body := zzBigBody(n)
	nc := zz.NewNetConn([]byte("GET /x HTTP/1.1\r\nHost: h\r\n\r\n"))
	core := zzNewCore(func(c context.Context, ctx *app.RequestContext) {
		switch mode {
		case 0:
			ctx.Response.SetBodyStream(bytes.NewReader(body), -1)
		case 1:
			ctx.Response.SetBodyStream(bytes.NewReader(body), len(body))
		case 2:
			ctx.Response.SetBody(body)
		}
	})
	s := zzNewServer(core)
	_ = s.Serve(context.Background(), standard.ZZNewConn(nc))
	r, used, ok := zzReadResponse(nc.Out, false)
	zz.Cover("reached-assert", true)
	zz.Assert("well-formed", ok && used == len(nc.Out))
	if ok {
		zz.Assert("big-body-intact", bytes.Equal(r.body, body))
	}
}

// ZZ_C04_SEQ: two responses in a row on one keep-alive connection (so the second is produced
// from a recycled context): the first has a sized body of symbolic bytes; the second is any
// of the bodiless statuses, a HEAD answer, an empty 200, a chunked stream or another sized body.
// Both are decoded by the strict reader; the second response carries no framing left over from
// the first: no Content-Length on 1xx/204, and on 304 / HEAD / empty responses the declared
// length is the length of what the second handler produced.
func ZZ_C04_SEQ() {
	b1 := zz.Bytes("body1", zz.Range("len1", 1, 3))
	b2 := zz.Bytes("body2", 2)
	second := zz.Choose("second", 6) // 0: 204, 1: 304, 2: HEAD without body, 3: 200 without body, 4: 200 stream of unknown length, 5: 200 sized
	wire := []byte("GET /one HTTP/1.1\r\nHost: h\r\n\r\n")
	if second == 2 {
		wire = append(wire, "HEAD /two HTTP/1.1\r\nHost: h\r\n\r\n"...)
	} else {
		wire = append(wire, "GET /two HTTP/1.1\r\nHost: h\r\n\r\n"...)
	}
	nc := zz.NewNetConn(wire)
	k := 0
	core := zzNewCore(func(c context.Context, ctx *app.RequestContext) {
		k++
		if k == 1 {
			ctx.Response.SetBody(b1)
			return
		}
		switch second {
		case 0:
			ctx.SetStatusCode(204)
		case 1:
			ctx.SetStatusCode(304)
		case 4:
			ctx.Response.SetBodyStream(bytes.NewReader(b2), -1)
		case 5:
			ctx.Response.SetBody(b2)
		}
	})
	s := zzNewServer(core)
	s.IdleTimeout = 1
	_ = s.Serve(context.Background(), standard.ZZNewConn(nc))
	out := nc.Out
	zz.Cover("reached-assert", true)
	r1, n1, ok1 := zzReadResponse(out, false)
	zz.Assert("first-response-well-formed", ok1 && r1.status == 200 && bytes.Equal(r1.body, b1))
	if !ok1 {
		return
	}
	r2, n2, ok2 := zzReadResponse(out[n1:], second == 2)
	zz.Assert("second-response-well-formed", ok2)
	if !ok2 {
		return
	}
	zz.Assert("nothing-after-the-second-response", n1+n2 == len(out))
	switch second {
	case 0:
		zz.Assert("no-content-length-on-204", r2.status == 204 && r2.clen < 0 && !r2.chunked)
	case 1, 2, 3:
		zz.Assert("declared-length-is-not-left-over-from-the-previous-response", r2.clen <= 0 && !r2.chunked && len(r2.body) == 0)
	case 4:
		zz.Assert("stream-body", r2.chunked && bytes.Equal(r2.body, b2))
	case 5:
		zz.Assert("sized-body", r2.clen == 2 && bytes.Equal(r2.body, b2))
	}
}

// ZZ_C04_PIPE: two pipelined requests that arrive in one read, both answered with a body large
// enough to be handed to the connection writer by reference (>= 4 KiB): each response carries
// its own bytes (the buffer of the first response must be on the wire, or copied, before the
// recycled context overwrites it with the second).
func ZZ_C04_PIPE() {
	n := []int{4096, 5000}[zz.Choose("size", 2)]
	sym := zz.Bytes("bodybytes", 4)
	mk := func(fill byte, a, b byte) []byte {
		body := make([]byte, n)
		for i := range body {
			body[i] = fill
		}
		body[0], body[n-1] = a, b
		return body
	}
	b1 := mk('A', sym[0], sym[1])
	b2 := mk('B', sym[2], sym[3])
	mode := zz.Choose("mode", 2) // 0 SetBody, 1 Write (AppendBody)
	nc := zz.NewNetConn([]byte("GET /one HTTP/1.1\r\nHost: h\r\n\r\nGET /two HTTP/1.1\r\nHost: h\r\n\r\n"))
	k := 0
	core := zzNewCore(func(c context.Context, ctx *app.RequestContext) {
		k++
		b := b1
		if k == 2 {
			b = b2
		}
		if mode == 0 {
			ctx.Response.SetBody(b)
		} else {
			ctx.Write(b) //nolint:errcheck
		}
	})
	s := zzNewServer(core)
	s.IdleTimeout = 1
	_ = s.Serve(context.Background(), standard.ZZNewConn(nc))
	out := nc.Out
	zz.Cover("reached-assert", true)
	r1, n1, ok1 := zzReadResponse(out, false)
	zz.Assert("first-response-well-formed", ok1)
	if !ok1 {
		return
	}
	zz.Assert("first-response-carries-its-own-body", bytes.Equal(r1.body, b1))
	r2, n2, ok2 := zzReadResponse(out[n1:], false)
	zz.Assert("second-response-well-formed", ok2)
	if ok2 {
		zz.Assert("second-response-carries-its-own-body", bytes.Equal(r2.body, b2))
		zz.Assert("nothing-else-on-the-wire", n1+n2 == len(out))
	}
}
