//go:build verif

package http1

import (
	"bytes"
	"context"
	"crypto/tls"
	"errors"
	"net"
	"time"

	zz "github.com/cloudwego/hertz/internal/zzverif"
	"github.com/cloudwego/hertz/pkg/common/config"
	"github.com/cloudwego/hertz/pkg/network"
	"github.com/cloudwego/hertz/pkg/network/standard"
	"github.com/cloudwego/hertz/pkg/protocol"
)

// peer behaviour for one exchange
const (
	zzOK = iota
	zzOKClose
	zzCloseBeforeFirstByte
	zzCloseMidHeader
	zzCloseMidBody
	zzDialError
	zzWriteError
	zzNumOutcomes
)

func zzPeerBytes(outcome int, marker byte) []byte {
	full := []byte("HTTP/1.1 200 OK\r\nContent-Length: 2\r\n\r\nr")
	full = append(full, marker)
	switch outcome {
	case zzOK, zzWriteError:
		return full
	case zzOKClose:
		b := []byte("HTTP/1.1 200 OK\r\nConnection: close\r\nContent-Length: 2\r\n\r\nr")
		return append(b, marker)
	case zzCloseBeforeFirstByte:
		return nil
	case zzCloseMidHeader:
		return full[:10]
	case zzCloseMidBody:
		return full[:len(full)-1]
	}
	return nil
}

type zzDialer struct {
	conns  []*zz.NetConn
	script func() (outcome int, marker byte) // outcome of the exchange in progress
	dials  int
	next   []byte // when script returns outcome -1: the bytes the new connection's peer sends
	onDial func(nc *zz.NetConn)
}

var zzErrDial = errors.New("zz: dial failed")

func (d *zzDialer) DialConnection(n, address string, timeout time.Duration, tlsConfig *tls.Config) (network.Conn, error) {
	d.dials++
	outcome, marker := d.script()
	if outcome == zzDialError {
		return nil, zzErrDial
	}
	var nc *zz.NetConn
	if outcome == -1 {
		nc = zz.NewNetConn(append([]byte(nil), d.next...))
	} else {
		nc = zz.NewNetConn(zzPeerBytes(outcome, marker))
	}
	if outcome == zzWriteError {
		nc.WriteErrAt = nc.Writes
	}
	if d.onDial != nil {
		d.onDial(nc)
	}
	d.conns = append(d.conns, nc)
	return standard.ZZNewConn(nc), nil
}
func (d *zzDialer) DialTimeout(n, address string, timeout time.Duration, tlsConfig *tls.Config) (net.Conn, error) {
	return nil, zzErrDial
}
func (d *zzDialer) AddTLS(conn network.Conn, tlsConfig *tls.Config) (network.Conn, error) {
	return conn, nil
}

// a context that is already cancelled (or never)
type zzCtx struct {
	done chan struct{}
	err  error
}

func (c *zzCtx) Deadline() (time.Time, bool)       { return time.Time{}, false }
func (c *zzCtx) Done() <-chan struct{}             { return c.done }
func (c *zzCtx) Err() error                        { return c.err }
func (c *zzCtx) Value(key interface{}) interface{} { return nil }

func zzCountRequests(out []byte) int {
	// request lines written by the client (a request may directly follow the body of the previous one)
	return bytes.Count(out, []byte(" HTTP/1.1\r\n"))
}

// ZZ_C10_H1: sequential histories of M client calls against a scripted peer, every fault
// sequence: the response returned belongs to the caller's request; the per-host connection
// count never exceeds MaxConns and equals the number of open connections; a connection is reused
// only after a clean exchange; once all calls have returned every connection is idle or closed
// and the pending-request gauge is zero; a request that is not safe to repeat is sent at most
// once; a cancelled context leaves no pending request behind.
func ZZ_C10_H1() {
	m := zz.Range("calls", 1, zz.Param("M", 2))
	maxConns := zz.Range("maxConns", 1, 2)
	d := &zzDialer{}
	cur, curMarker := 0, byte('0')
	d.script = func() (int, byte) { return cur, curMarker }
	opts := &ClientOptions{Dialer: d, MaxConns: maxConns}
	if zz.Choose("maxConnDuration", 2) == 1 {
		opts.MaxConnDuration = 1 // every pooled connection is "too old": the client asks to close it
	}
	c := NewHostClient(opts).(*HostClient)
	c.Addr = "h:80"
	type reuse struct{ first, count int }
	firstOutcome := map[*zz.NetConn]int{}
	okAll := true
	respOK := true
	boundOK := true
	onceOK := true
	intactOK := true
	for i := 0; i < m; i++ {
		outcome := zz.Choose("outcome", zzNumOutcomes)
		kind := zz.Choose("request", 3) // 0 GET, 1 POST with a body, 2 PUT whose body is a stream
		post := kind == 1
		cancelled := zz.Choose("cancelled", 2) == 1
		cur, curMarker = outcome, byte('0'+i)
		// the peer's answer for this exchange is appended to every connection that is still
		// open (one of them may be reused), and served by a new connection otherwise
		for _, nc := range d.conns {
			if nc.Closed == 0 && outcome != zzDialError && !cancelled { // a request that is never sent gets no answer
				nc.In = append(nc.In, zzPeerBytes(outcome, curMarker)...)
				if outcome == zzWriteError {
					nc.WriteErrAt = nc.Writes
				}
			}
		}
		before, bodiesBefore := 0, 0
		for _, nc := range d.conns {
			before += zzCountRequests(nc.Out)
			bodiesBefore += bytes.Count(nc.Out, []byte("\r\n\r\nyz"))
		}
		var req protocol.Request
		var resp protocol.Response
		if post {
			req.SetMethod("POST")
			req.SetBodyString("x")
		}
		if kind == 2 {
			req.SetMethod("PUT")
			req.SetBodyStream(bytes.NewReader([]byte("yz")), 2)
		}
		req.SetRequestURI("http://h/r")
		ctx := &zzCtx{}
		if cancelled {
			ch := make(chan struct{})
			close(ch)
			ctx = &zzCtx{done: ch, err: context.Canceled}
		}
		err := c.Do(ctx, &req, &resp)
		after := 0
		for _, nc := range d.conns {
			after += zzCountRequests(nc.Out)
			if _, seen := firstOutcome[nc]; !seen {
				firstOutcome[nc] = outcome
			} else if zzCountRequests(nc.Out) >= 2 && firstOutcome[nc] != zzOK {
				okAll = false // reused after a non-clean exchange
			}
			if zzCountRequests(nc.Out) >= 2 {
				// the first request on this connection must not have asked to close it
				second := bytes.Index(nc.Out[1:], []byte("\r\n\r\n"))
				if second > 0 && bytes.Contains(nc.Out[:second+1], []byte("Connection: close")) {
					okAll = false
				}
			}
		}
		if post && after-before > 1 {
			onceOK = false
		}
		if kind == 2 {
			// every copy of the request that reaches a peer (a re-sent one included) carries its body
			bodies := -bodiesBefore
			for _, nc := range d.conns {
				bodies += bytes.Count(nc.Out, []byte("\r\n\r\nyz"))
			}
			// (a write error may cut a request short: only complete header blocks are counted by zzCountRequests... a request whose write failed is excluded)
			if outcome != zzWriteError && bodies != after-before {
				intactOK = false
			}
		}
		if cancelled {
			if err == nil || after != before {
				respOK = false
			}
		} else if err == nil {
			b := resp.Body()
			if len(b) != 2 || b[1] != byte('0'+i) {
				respOK = false
			}
		}
		open := 0
		for _, nc := range d.conns {
			if nc.Closed == 0 {
				open++
			}
		}
		if c.ConnectionCount() != open || c.connsCount != open || c.connsCount > maxConns || len(c.conns) != open {
			boundOK = false
		}
		zz.Assert("pending-request-gauge-returns-to-zero", c.PendingRequests() == 0)
	}
	zz.Cover("reached-assert", true)
	zz.Cover("a-connection-was-reused", len(d.conns) < m && len(d.conns) > 0)
	zz.Assert("connection-reused-only-after-clean-exchange", okAll)
	zz.Assert("response-belongs-to-the-callers-request", respOK)
	zz.Assert("counted-connections-are-open-idle-and-within-maxconns", boundOK)
	zz.Assert("unsafe-request-sent-at-most-once", onceOK)
	zz.Assert("re-sent-request-carries-its-body", intactOK)
}

// ZZ_C10_H2: the wait-for-a-free-connection path, sequentially. With MaxConns = 1 and
// MaxConnWaitTimeout > 0, a first call in streaming mode keeps the only connection busy (its
// body stream is still open); a second call has to queue, its wait times out (the only event
// that can happen), and it must leave no waiter behind; when the first body stream is closed the
// connection goes back to the idle pool and a third call reuses it.
func ZZ_C10_H2() {
	d := &zzDialer{}
	cur, curMarker := zzOK, byte('0')
	d.script = func() (int, byte) { return cur, curMarker }
	c := NewHostClient(&ClientOptions{Dialer: d, MaxConns: 1, MaxConnWaitTimeout: time.Second, ResponseBodyStream: true}).(*HostClient)
	c.Addr = "h:80"
	closeFirst := zz.Choose("closeFirstBeforeSecond", 2) == 1
	var req1, req2, req3 protocol.Request
	var resp1, resp2, resp3 protocol.Response
	req1.SetRequestURI("http://h/1")
	req2.SetRequestURI("http://h/2")
	req3.SetRequestURI("http://h/3")
	err1 := c.Do(&zzCtx{}, &req1, &resp1)
	zz.Assert("first-call-succeeds", err1 == nil && resp1.IsBodyStream())
	if err1 != nil || !resp1.IsBodyStream() {
		return
	}
	zz.Assert("connection-busy-while-stream-open", c.connsCount == 1 && len(c.conns) == 0)
	if closeFirst {
		resp1.CloseBodyStream() //nolint:errcheck
	}
	curMarker = '1'
	if closeFirst {
		d.conns[0].In = append(d.conns[0].In, zzPeerBytes(zzOK, '1')...)
	}
	err2 := c.Do(&zzCtx{}, &req2, &resp2)
	zz.Cover("reached-assert", true)
	if closeFirst {
		zz.Assert("second-call-reuses-the-released-connection", err2 == nil && len(d.conns) == 1)
		resp2.CloseBodyStream() //nolint:errcheck
	} else {
		zz.Cover("waited-and-timed-out", err2 != nil)
		zz.Assert("second-call-fails-when-no-connection-frees-up", err2 != nil && len(d.conns) == 1)
		zz.Assert("count-still-within-maxconns", c.connsCount == 1)
		zz.Assert("no-waiter-left-waiting", c.WantConnectionCount() == 0 || !c.connsWait.peekFront().waiting())
		resp1.CloseBodyStream() //nolint:errcheck
	}
	zz.Assert("connection-idle-after-streams-closed", c.connsCount == 1 && len(c.conns) == 1 && d.conns[0].Closed == 0)
	curMarker = '2'
	d.conns[0].In = append(d.conns[0].In, zzPeerBytes(zzOK, '2')...)
	err3 := c.Do(&zzCtx{}, &req3, &resp3)
	zz.Assert("third-call-reuses-the-idle-connection", err3 == nil && len(d.conns) == 1)
	if err3 == nil {
		b, _ := resp3.BodyE()
		zz.Assert("third-response-is-its-own", len(b) == 2 && b[1] == '2')
	}
	zz.Assert("pending-gauge-zero", c.PendingRequests() == 0)
}

// response shapes for the streaming harness: marker byte m
func zzStreamPeerBytes(shape int, m byte) []byte {
	switch shape {
	case 0:
		return append([]byte("HTTP/1.1 200 OK\r\nContent-Length: 2\r\n\r\nr"), m)
	case 1:
		return append(append([]byte("HTTP/1.1 200 OK\r\nX-M: "), m), "\r\nContent-Length: 0\r\n\r\n"...)
	case 2:
		return append(append([]byte("HTTP/1.1 204 No Content\r\nX-M: "), m), "\r\n\r\n"...)
	case 3:
		return append(append([]byte("HTTP/1.1 200 OK\r\nConnection: close\r\nContent-Length: 2\r\n\r\nr"), m))
	case 4:
		return append(append([]byte("HTTP/1.1 200 OK\r\nTransfer-Encoding: chunked\r\n\r\n2\r\nr"), m), "\r\n0\r\n\r\n"...)
	case 5:
		// a body larger than the streaming prefetch (8 KiB), cut short: the peer closes after
		// 8500 of the 9000 bytes it announced
		b := []byte("HTTP/1.1 200 OK\r\nContent-Length: 9000\r\n\r\n")
		for i := 0; i < 8500; i++ {
			b = append(b, m)
		}
		return b
	case 6:
		// a complete body larger than the streaming prefetch
		b := []byte("HTTP/1.1 200 OK\r\nContent-Length: 9000\r\n\r\n")
		for i := 0; i < 9000; i++ {
			b = append(b, m)
		}
		return b
	}
	return nil
}

// zzPoolInvariant: connections counted for the host are exactly the open ones; the idle pool
// holds each connection at most once, every idle connection is open, and idle <= counted <= max.
func zzPoolInvariant(c *HostClient, d *zzDialer, maxConns int) bool {
	open := 0
	for _, nc := range d.conns {
		if nc.Closed == 0 {
			open++
		}
	}
	if c.connsCount != open || c.connsCount > maxConns || len(c.conns) > c.connsCount {
		return false
	}
	for i := range c.conns {
		for j := i + 1; j < len(c.conns); j++ {
			if c.conns[i] == c.conns[j] {
				return false
			}
		}
	}
	return true
}

// ZZ_C10_H3: response streaming. A sequence of calls whose responses have every framing shape
// (fixed length, explicitly empty, bodiless status, Connection: close, chunked); the caller
// reads or does not read the body and closes the stream (possibly twice) before the next call,
// or leaves it open while a second call waits and times out. After every step the pool invariant
// holds, every response belongs to its request, and at the end nothing is pending.
func ZZ_C10_H3() {
	maxConns := zz.Range("maxConns", 1, 2)
	d := &zzDialer{}
	var pending []byte // shape/marker of the exchange a new connection will serve
	d.script = func() (int, byte) { return zzOK, 0 }
	c := NewHostClient(&ClientOptions{Dialer: d, MaxConns: maxConns, MaxConnWaitTimeout: time.Second, ResponseBodyStream: true}).(*HostClient)
	c.Addr = "h:80"
	_ = pending
	n := zz.Range("calls", 1, zz.Param("M", 3))
	invOK, respOK := true, true
	var open []*protocol.Response  // responses whose stream the caller has not closed yet
	gone := map[*zz.NetConn]bool{} // connections on which the peer has hung up in mid-response
	truncOK := true
	for i := 0; i < n; i++ {
		shape := zz.Choose("shape", zz.Param("SHAPES", 5))
		marker := byte('0' + i)
		reply := zzStreamPeerBytes(shape, marker)
		// the peer answers on whichever connection the request arrives: feed every open
		// connection that has no unread input, and script the next dial the same way
		fed := []*zz.NetConn{}
		for _, nc := range d.conns {
			if nc.Closed == 0 && nc.Pos == len(nc.In) && !gone[nc] {
				nc.In = append(nc.In, reply...)
				fed = append(fed, nc)
			}
		}
		ndials := len(d.conns)
		dialReply := reply
		d.script = func() (int, byte) { return -1, 0 }
		d.next = dialReply
		var req protocol.Request
		resp := &protocol.Response{}
		req.SetRequestURI("http://h/" + string([]byte{marker}))
		err := c.Do(&zzCtx{}, &req, resp)
		// un-feed the connections that did not carry the request
		for _, nc := range fed {
			if nc.Pos == len(nc.In)-len(reply) && nc.Closed == 0 {
				nc.In = nc.In[:len(nc.In)-len(reply)]
			}
		}
		_ = ndials
		if shape == 5 {
			// the connection that carried this request is the one whose input is used up
			for _, nc := range d.conns {
				tail := nc.Out
				if len(tail) > 60 {
					tail = tail[len(tail)-60:]
				}
				if len(nc.In) > 0 && bytes.Contains(tail, []byte("/"+string([]byte{marker})+" HTTP")) {
					gone[nc] = true
				}
			}
		}
		if err != nil {
			// only legitimate failure here: no free connection within the wait timeout
			zz.Cover("no-free-connection", true)
			if len(open) == 0 {
				respOK = false
			}
		} else {
			var got byte
			if shape == 1 || shape == 2 {
				if v := resp.Header.Peek("X-M"); len(v) == 1 {
					got = v[0]
				}
			} else if shape == 6 {
				// large body: the caller reads nothing, a prefix that ends beyond the prefetched
				// part, or everything, then closes the stream
				want := []int{0, 8300, 9000}[zz.Choose("readPrefix", 3)]
				buf := make([]byte, 4096)
				n := 0
				okBytes := true
				for n < want && resp.IsBodyStream() {
					k := want - n
					if k > len(buf) {
						k = len(buf)
					}
					m, err := resp.BodyStream().Read(buf[:k])
					for _, c := range buf[:m] {
						if c != marker {
							okBytes = false
						}
					}
					n += m
					if err != nil {
						break
					}
				}
				if n == want && okBytes {
					got = marker
				}
			} else if shape == 5 {
				// cut-short body: some callers read it (and get an error), some do not
				if zz.Choose("readBody", 2) == 1 {
					resp.BodyE() //nolint:errcheck
				}
				got = marker
			} else if zz.Choose("readBody", 2) == 1 || !resp.IsBodyStream() {
				b, _ := resp.BodyE()
				if len(b) == 2 {
					got = b[1]
				}
			} else {
				got = marker // body deliberately left unread
			}
			if got != marker {
				respOK = false
			}
			switch zz.Choose("close", 3) {
			case 0:
				resp.CloseBodyStream() //nolint:errcheck
			case 1:
				resp.CloseBodyStream() //nolint:errcheck
				resp.CloseBodyStream() //nolint:errcheck
			case 2:
				if resp.IsBodyStream() {
					open = append(open, resp)
					zz.Cover("stream-left-open", true)
				}
			}
		}
		if !zzPoolInvariant(c, d, maxConns) {
			invOK = false
		}
	}
	for _, r := range open {
		r.CloseBodyStream() //nolint:errcheck
	}
	// a connection on which the peer hung up in mid-response is closed, never kept for reuse
	for nc := range gone {
		if nc.Closed == 0 {
			truncOK = false
		}
	}
	zz.Cover("reached-assert", true)
	zz.Cover("connection-reused", len(d.conns) < n)
	zz.Assert("pool-invariant-after-every-call", invOK)
	zz.Assert("response-belongs-to-the-callers-request", respOK)
	zz.Assert("pool-invariant-at-the-end", zzPoolInvariant(c, d, maxConns))
	zz.Assert("connection-with-a-cut-short-response-is-closed", truncOK)
	zz.Assert("all-open-connections-idle-at-the-end", len(c.conns) == c.connsCount)
	// (WantConnectionCount itself dereferences a nil queue on a client that never waited - an
	// incidental observation outside C10, see DESIGN.md - so the queue is inspected directly)
	liveWaiter := false
	if q := c.connsWait; q != nil {
		for q.len() > 0 {
			if q.popFront().waiting() {
				liveWaiter = true
			}
		}
	}
	zz.Assert("no-live-waiter", !liveWaiter)
	zz.Assert("pending-gauge-zero", c.PendingRequests() == 0)
}

// ZZ_C10_H4: the per-request timeout budget. Call 1 has no budget, a budget that is already used
// up (1 ns) or one of 1 s, and the peer's connection takes its time on writes or not (zz.SlowFor:
// 1.3 s natively, +1.3 s on the modelled clock), so the budget can run out before the request is
// written or between writing it and reading the answer. Whatever call 1 returns, a connection
// whose exchange did not complete is not reused: call 2 (no budget) gets the answer to its own
// request and the pool invariant holds.
func ZZ_C10_H4() {
	budget := []time.Duration{0, 1, time.Second}[zz.Choose("budget", 3)]
	slowWrite := zz.Choose("slowWrite", 2) == 1
	d := &zzDialer{}
	marker := byte('0')
	d.script = func() (int, byte) { return -1, 0 }
	c := NewHostClient(&ClientOptions{Dialer: d, MaxConns: 2}).(*HostClient)
	c.Addr = "h:80"
	var req1, req2 protocol.Request
	var resp1, resp2 protocol.Response
	req1.SetRequestURI("http://h/0")
	req2.SetRequestURI("http://h/1")
	if budget > 0 {
		req1.SetOptions(config.WithRequestTimeout(budget))
	}
	d.next = zzPeerBytes(zzOK, marker)
	d.onDial = func(nc *zz.NetConn) {
		if slowWrite {
			nc.OnWrite = func() { zz.SlowFor(1300) }
		}
	}
	err1 := c.Do(&zzCtx{}, &req1, &resp1)
	zz.Cover("first-call-timed-out", err1 != nil)
	zz.Cover("first-call-ok", err1 == nil)
	if err1 == nil {
		b := resp1.Body()
		zz.Assert("first-response-is-its-own", len(b) == 2 && b[1] == '0')
	}
	zz.Assert("pool-invariant-after-first-call", zzPoolInvariant(c, d, 2))
	// second call: the peer answers request 1 on whichever connection carries it
	slowWrite = false
	marker = '1'
	reply := zzPeerBytes(zzOK, marker)
	d.next = reply
	for _, nc := range d.conns {
		nc.OnWrite = nil
		if nc.Closed == 0 {
			nc.In = append(nc.In, reply...)
		}
	}
	err2 := c.Do(&zzCtx{}, &req2, &resp2)
	zz.Cover("reached-assert", true)
	zz.Assert("second-call-succeeds", err2 == nil)
	if err2 == nil {
		b := resp2.Body()
		zz.Assert("second-response-belongs-to-the-second-request", len(b) == 2 && b[1] == '1')
	}
	zz.Assert("pool-invariant-at-the-end", zzPoolInvariant(c, d, 2))
	zz.Assert("pending-gauge-zero", c.PendingRequests() == 0)
}

// ZZ_C10_H5: "a call given a request timeout returns no later than that timeout plus slack",
// across a transparently retried attempt. A warm-up call leaves an idle pooled connection; the
// call under test (budget 2 s, idempotent GET) writes its request slowly (1.3 s) on that
// connection, the peer has closed it, the request is re-sent on a fresh connection whose writes
// and reads are slow too. The budget covers the whole call: it may overrun by at most the one
// operation in flight (transport deadlines are not modelled), so the call returns within
// budget + 1.5 s on the modelled clock (and on the wall clock of the native replay).
func ZZ_C10_H5() {
	d := &zzDialer{}
	d.script = func() (int, byte) { return -1, 0 }
	c := NewHostClient(&ClientOptions{Dialer: d, MaxConns: 2}).(*HostClient)
	c.Addr = "h:80"
	var req0, req1 protocol.Request
	var resp0, resp1 protocol.Response
	req0.SetRequestURI("http://h/0")
	d.next = zzPeerBytes(zzOK, '0')
	err0 := c.Do(&zzCtx{}, &req0, &resp0)
	zz.Assert("warm-up-call-succeeds", err0 == nil && len(d.conns) == 1)
	if err0 != nil || len(d.conns) != 1 {
		return
	}
	slowReads := zz.Choose("slowReads", 2) == 1
	retried := zz.Choose("peerClosedIdleConnection", 2) == 1
	first := d.conns[0]
	first.OnWrite = func() { zz.SlowFor(1300) }
	if !retried {
		first.In = append(first.In, zzPeerBytes(zzOK, '1')...)
		if slowReads {
			first.OnRead = func() { zz.SlowFor(1300) }
		}
	}
	d.next = zzPeerBytes(zzOK, '1')
	d.onDial = func(nc *zz.NetConn) {
		nc.OnWrite = func() { zz.SlowFor(1300) }
		if slowReads {
			nc.OnRead = func() { zz.SlowFor(1300) }
		}
	}
	req1.SetRequestURI("http://h/1")
	const budget = 2 * time.Second
	req1.SetOptions(config.WithRequestTimeout(budget))
	t0 := time.Now()
	err1 := c.Do(&zzCtx{}, &req1, &resp1)
	elapsed := time.Since(t0)
	zz.Cover("reached-assert", true)
	zz.Cover("retried-on-a-fresh-connection", len(d.conns) == 2)
	zz.Cover("timed-out", err1 != nil)
	zz.Assert("returns-within-budget-plus-one-operation", elapsed <= budget+1500*time.Millisecond)
	if err1 == nil {
		b := resp1.Body()
		zz.Assert("response-is-its-own", len(b) == 2 && b[1] == '1')
	}
	zz.Assert("pool-invariant", zzPoolInvariant(c, d, 2))
	zz.Assert("pending-gauge-zero", c.PendingRequests() == 0)
}
