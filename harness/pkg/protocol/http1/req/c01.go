//go:build verif

package req

import (
	zz "github.com/cloudwego/hertz/internal/zzverif"
	"github.com/cloudwego/hertz/pkg/network/standard"
	"github.com/cloudwego/hertz/pkg/protocol"
)

// ASCII lower-casing as a table (bytes 'A'..'Z' map to 'a'..'z', every other byte to itself);
// a table keeps the reference branch-free under symbolic execution.
const zzLowerTab = "\x00\x01\x02\x03\x04\x05\x06\x07\x08\x09\x0a\x0b\x0c\x0d\x0e\x0f\x10\x11\x12\x13\x14\x15\x16\x17\x18\x19\x1a\x1b\x1c\x1d\x1e\x1f\x20\x21\x22\x23\x24\x25\x26\x27\x28\x29\x2a\x2b\x2c\x2d\x2e\x2f\x30\x31\x32\x33\x34\x35\x36\x37\x38\x39\x3a\x3b\x3c\x3d\x3e\x3f\x40\x61\x62\x63\x64\x65\x66\x67\x68\x69\x6a\x6b\x6c\x6d\x6e\x6f\x70\x71\x72\x73\x74\x75\x76\x77\x78\x79\x7a\x5b\x5c\x5d\x5e\x5f\x60\x61\x62\x63\x64\x65\x66\x67\x68\x69\x6a\x6b\x6c\x6d\x6e\x6f\x70\x71\x72\x73\x74\x75\x76\x77\x78\x79\x7a\x7b\x7c\x7d\x7e\x7f\x80\x81\x82\x83\x84\x85\x86\x87\x88\x89\x8a\x8b\x8c\x8d\x8e\x8f\x90\x91\x92\x93\x94\x95\x96\x97\x98\x99\x9a\x9b\x9c\x9d\x9e\x9f\xa0\xa1\xa2\xa3\xa4\xa5\xa6\xa7\xa8\xa9\xaa\xab\xac\xad\xae\xaf\xb0\xb1\xb2\xb3\xb4\xb5\xb6\xb7\xb8\xb9\xba\xbb\xbc\xbd\xbe\xbf\xc0\xc1\xc2\xc3\xc4\xc5\xc6\xc7\xc8\xc9\xca\xcb\xcc\xcd\xce\xcf\xd0\xd1\xd2\xd3\xd4\xd5\xd6\xd7\xd8\xd9\xda\xdb\xdc\xdd\xde\xdf\xe0\xe1\xe2\xe3\xe4\xe5\xe6\xe7\xe8\xe9\xea\xeb\xec\xed\xee\xef\xf0\xf1\xf2\xf3\xf4\xf5\xf6\xf7\xf8\xf9\xfa\xfb\xfc\xfd\xfe\xff"

func zzLower(c byte) byte { return zzLowerTab[c] }

// ASCII case-insensitive equality, written with explicit ranges (the reference).
func zzIEq(a []byte, b string) bool {
	if len(a) != len(b) {
		return false
	}
	for i := range a {
		if zzLower(a[i]) != zzLower(b[i]) {
			return false
		}
	}
	return true
}

// ZZ_C01_H1: only header names equal to Content-Length / Transfer-Encoding ignoring ASCII case
// may influence framing. The name (14 or 17 bytes, every byte symbolic) is placed in a real
// request that is read by the real header reader through the real standard.Conn.
func ZZ_C01_H1() {
	which := zz.Choose("which", 2)
	normalize := zz.Choose("normalize", 2) == 1
	var l int
	var val string
	if which == 0 {
		l, val = 14, "5"
	} else {
		l, val = 17, "chunked"
	}
	var name []byte
	if normalize && zz.Param("FULLNORM", 0) == 0 {
		// With key normalising on, NormalizeHeaderKey branches on every byte being '-', i.e. 2^l
		// paths for a fully symbolic name. The quick tier therefore makes every window of two
		// adjacent positions symbolic (all 65536 values) inside the canonical spelling; the
		// thorough tier (FULLNORM=1) makes all l bytes symbolic.
		canon := "content-length"
		if which == 1 {
			canon = "transfer-encoding"
		}
		p := zz.Choose("pos", l-1)
		w := zz.Bytes("window", 2)
		name = []byte(canon)
		name[p], name[p+1] = w[0], w[1]
	} else {
		name = zz.Bytes("name", l)
	}
	for _, c := range name {
		// the name must be what the scanner extracts as one field name
		zz.Assume(c != ':' && c != '\n' && c != ' ' && c != '\t')
	}
	wire := []byte("POST / HTTP/1.1\r\nHost: h\r\n")
	wire = append(wire, name...)
	wire = append(wire, ": "...)
	wire = append(wire, val...)
	wire = append(wire, "\r\n\r\n"...)
	conn := standard.ZZNewConn(zz.NewNetConn(wire))
	var h protocol.RequestHeader
	if !normalize {
		h.DisableNormalizing()
	}
	err := ReadHeader(&h, conn)
	zz.Cover("reached-assert", true)
	if err != nil {
		zz.Cover("header-rejected", true)
		return
	}
	cl := h.ContentLength()
	if which == 0 {
		isCL := zzIEq(name, "content-length")
		zz.Cover("recognised-content-length", cl == 5)
		zz.Assert("content-length-framing-iff-name-matches", (cl != -2) == isCL)
	} else {
		isTE := zzIEq(name, "transfer-encoding")
		zz.Cover("recognised-transfer-encoding", cl == -1)
		zz.Assert("chunked-framing-iff-name-matches", (cl == -1) == isTE)
	}
}
