//go:build verif

package http1

import (
	"bytes"
	"context"
	"io"

	zz "github.com/cloudwego/hertz/internal/zzverif"
	"github.com/cloudwego/hertz/pkg/app"
	"github.com/cloudwego/hertz/pkg/network/standard"
)

var zzReadSizes = []int{0, 1, 3, 16}

// ZZ_C14_H1: streamed request body. Body bytes are symbolic; the consumption program (number of
// reads, read-buffer sizes, stopping point), the body length, the prefetch limit and the
// fragmentation are choices. A sentinel request follows the body on the same connection.
func ZZ_C14_H1() {
	chunked := zz.Choose("chunked", 2) == 1
	var wire, body []byte
	if !chunked {
		l := zz.Range("len", 0, zz.Param("L", 6))
		body = zz.Bytes("body", l)
		wire = []byte("POST /b HTTP/1.1\r\nHost: h\r\nContent-Length: ")
		wire = append(wire, byte('0'+l))
		wire = append(wire, "\r\n\r\n"...)
		wire = append(wire, body...)
	} else {
		wire = []byte("POST /b HTTP/1.1\r\nHost: h\r\nTransfer-Encoding: chunked\r\n\r\n")
		nch := zz.Range("chunks", 1, zz.Param("C", 2))
		for i := 0; i < nch; i++ {
			sz := zz.Range("size", 1, zz.Param("S", 6))
			pl := zz.Bytes("payload", sz)
			wire = append(wire, byte('0'+sz))
			wire = append(wire, "\r\n"...)
			wire = append(wire, pl...)
			wire = append(wire, "\r\n"...)
			body = append(body, pl...)
		}
		wire = append(wire, "0\r\n\r\n"...)
	}
	bodyEnd := len(wire)
	wire = append(wire, zzSentinel...)
	nreads := zz.Range("nreads", 0, zz.Param("R", 3))
	var sizes []int
	for i := 0; i < nreads; i++ {
		sizes = append(sizes, zzReadSizes[zz.Choose("rsize", len(zzReadSizes))])
	}
	frag := zz.Range("frag", 0, 1)
	maxBody := []int{0, 1, 3}[zz.Choose("maxbody", 3)]

	nc := zz.NewNetConn(wire)
	if frag > 0 {
		nc.Frag = func(rem int) int { return frag }
	}
	var got []byte
	sawEOF, eofEarly, readErr := false, false, false
	maxPosAtHandlerEnd := -1
	var seen []zzSeen
	consumedAtSecond := -1
	core := zzNewCore(func(c context.Context, ctx *app.RequestContext) {
		s := zzSeen{method: string(ctx.Method()), uri: string(ctx.Request.RequestURI())}
		seen = append(seen, s)
		if len(seen) == 1 {
			r := ctx.RequestBodyStream()
			for _, sz := range sizes {
				buf := make([]byte, sz)
				n, err := r.Read(buf)
				got = append(got, buf[:n]...)
				if err == io.EOF {
					sawEOF = true
					if len(got) != len(body) {
						eofEarly = true
					}
				} else if err != nil {
					readErr = true
				}
			}
			maxPosAtHandlerEnd = nc.MaxReadPos
		} else {
			consumedAtSecond = nc.Pos - ctx.GetConn().Len()
		}
		ctx.Response.SetBodyString("r" + s.uri)
	})
	s := zzNewServer(core)
	s.StreamRequestBody = true
	s.IdleTimeout = 1
	s.MaxRequestBodySize = maxBody
	err := s.Serve(context.Background(), standard.ZZNewConn(nc))
	_ = err
	zz.Cover("reached-assert", true)
	zz.Cover("stopped-mid-body", len(got) < len(body) && len(got) > 0)
	zz.Cover("read-to-eof", sawEOF)
	// known finding (recorded, not repaired: the repository's own tests pin the behaviour):
	// with 0 < MaxRequestBodySize < Content-Length the prefetch (readBodyIdentity) takes whatever
	// is buffered, including bytes of the next pipelined request.
	_ = zz.Known("C14-prefetch-swallows-pipelined", !chunked && maxBody > 0 && maxBody < len(body))
	zz.Assert("first-handler-ran", len(seen) >= 1)
	zz.Assert("no-read-error-on-well-formed-body", !readErr)
	zz.Assert("bytes-read-are-a-prefix-of-the-body", len(got) <= len(body) && bytes.Equal(got, body[:minInt(len(got), len(body))]))
	zz.Assert("eof-only-at-end-of-body", !eofEarly)
	if frag == 1 {
		zz.Assert("no-network-read-beyond-the-body-while-streaming", maxPosAtHandlerEnd <= bodyEnd)
	}
	if len(seen) >= 2 {
		zz.Assert("next-request-is-the-sentinel", len(seen) == 2 && seen[1].method == "GET" && seen[1].uri == "/s")
		zz.Assert("next-request-parsed-from-first-byte-after-body", consumedAtSecond == len(wire))
	}
	// exactly one well-formed response per handled request, nothing else on the wire
	out := nc.Out
	pos, n := 0, 0
	for pos < len(out) {
		_, k, ok := zzReadResponse(out[pos:], false)
		if !ok {
			n = -1
			break
		}
		pos += k
		n++
	}
	zz.Assert("one-response-per-handled-request-and-nothing-else", n == len(seen))
}

func minInt(a, b int) int {
	if a < b {
		return a
	}
	return b
}
