//go:build verif

package http1

import (
	"bytes"
	"context"
	"io"

	zz "github.com/cloudwego/hertz/internal/zzverif"
	"github.com/cloudwego/hertz/pkg/app"
	"github.com/cloudwego/hertz/pkg/network/standard"
)

var zzReadSizes = []int{0, 1, 3, 16}

// ZZ_C14_H1: streamed request body. Body bytes are symbolic; the consumption program (number of
// reads, read-buffer sizes, stopping point), the body length, the prefetch limit and the
// fragmentation are choices. A sentinel request follows the body on the same connection.
func ZZ_C14_H1() {
	chunked := zz.Choose("chunked", 2) == 1
	// the method does not decide the framing: a GET with a body is streamed like a POST
	method := []string{"POST", "GET"}[zz.Choose("method", 2)]
	var wire, body []byte
	if !chunked {
		l := zz.Range("len", 0, zz.Param("L", 6))
		body = zz.Bytes("body", l)
		wire = []byte(method + " /b HTTP/1.1\r\nHost: h\r\nContent-Length: ")
		wire = append(wire, byte('0'+l))
		wire = append(wire, "\r\n\r\n"...)
		wire = append(wire, body...)
	} else {
		wire = []byte(method + " /b HTTP/1.1\r\nHost: h\r\nTransfer-Encoding: chunked\r\n\r\n")
		nch := zz.Range("chunks", 1, zz.Param("C", 2))
		for i := 0; i < nch; i++ {
			sz := zz.Range("size", 1, zz.Param("S", 6))
			pl := zz.Bytes("payload", sz)
			wire = append(wire, byte('0'+sz))
			wire = append(wire, "\r\n"...)
			wire = append(wire, pl...)
			wire = append(wire, "\r\n"...)
			body = append(body, pl...)
		}
		wire = append(wire, "0\r\n\r\n"...)
	}
	bodyEnd := len(wire)
	wire = append(wire, zzSentinel...)
	nreads := zz.Range("nreads", 0, zz.Param("R", 3))
	var sizes []int
	for i := 0; i < nreads; i++ {
		sizes = append(sizes, zzReadSizes[zz.Choose("rsize", len(zzReadSizes))])
	}
	frag := zz.Range("frag", 0, 1)
	maxBody := []int{0, 1, 3}[zz.Choose("maxbody", 3)]

	nc := zz.NewNetConn(wire)
	if frag > 0 {
		nc.Frag = func(rem int) int { return frag }
	}
	var got []byte
	sawEOF, eofEarly, readErr := false, false, false
	maxPosAtHandlerEnd := -1
	var seen []zzSeen
	consumedAtSecond := -1
	core := zzNewCore(func(c context.Context, ctx *app.RequestContext) {
		s := zzSeen{method: string(ctx.Method()), uri: string(ctx.Request.RequestURI())}
		seen = append(seen, s)
		if len(seen) == 1 {
			r := ctx.RequestBodyStream()
			for _, sz := range sizes {
				buf := make([]byte, sz)
				n, err := r.Read(buf)
				got = append(got, buf[:n]...)
				if err == io.EOF {
					sawEOF = true
					if len(got) != len(body) {
						eofEarly = true
					}
				} else if err != nil {
					readErr = true
				}
			}
			maxPosAtHandlerEnd = nc.MaxReadPos
		} else {
			consumedAtSecond = nc.Pos - ctx.GetConn().Len()
		}
		ctx.Response.SetBodyString("r" + s.uri)
	})
	s := zzNewServer(core)
	s.StreamRequestBody = true
	s.IdleTimeout = 1
	s.MaxRequestBodySize = maxBody
	err := s.Serve(context.Background(), standard.ZZNewConn(nc))
	_ = err
	zz.Cover("reached-assert", true)
	zz.Cover("stopped-mid-body", len(got) < len(body) && len(got) > 0)
	zz.Cover("read-to-eof", sawEOF)
	// known finding (recorded, not repaired: the repository's own tests pin the behaviour):
	// with 0 < MaxRequestBodySize < Content-Length the prefetch (readBodyIdentity) takes whatever
	// is buffered, including bytes of the next pipelined request.
	_ = zz.Known("C14-prefetch-swallows-pipelined", !chunked && maxBody > 0 && maxBody < len(body))
	zz.Assert("first-handler-ran", len(seen) >= 1)
	zz.Assert("no-read-error-on-well-formed-body", !readErr)
	zz.Assert("bytes-read-are-a-prefix-of-the-body", len(got) <= len(body) && bytes.Equal(got, body[:minInt(len(got), len(body))]))
	zz.Assert("eof-only-at-end-of-body", !eofEarly)
	if frag == 1 {
		zz.Assert("no-network-read-beyond-the-body-while-streaming", maxPosAtHandlerEnd <= bodyEnd)
	}
	// C01 clause: the stream is well-formed, so the pipelined request must be handled too - a
	// handler that stops reading early is no reason to drop the connection
	if zz.Param("C01", 0) == 1 {
		zz.Assert("pipelined-request-still-handled", len(seen) == 2)
	}
	if len(seen) >= 2 {
		zz.Assert("next-request-is-the-sentinel", len(seen) == 2 && seen[1].method == "GET" && seen[1].uri == "/s")
		zz.Assert("next-request-parsed-from-first-byte-after-body", consumedAtSecond == len(wire))
	}
	// exactly one well-formed response per handled request, nothing else on the wire
	out := nc.Out
	pos, n := 0, 0
	for pos < len(out) {
		_, k, ok := zzReadResponse(out[pos:], false)
		if !ok {
			n = -1
			break
		}
		pos += k
		n++
	}
	zz.Assert("one-response-per-handled-request-and-nothing-else", n == len(seen))
}

func minInt(a, b int) int {
	if a < b {
		return a
	}
	return b
}

// ZZ_C14_H2: a pooled body stream whose release failed (the peer hung up in the middle of a
// streamed upload) must not leak its position into the next streamed request that gets the same
// pooled object on another connection.
func ZZ_C14_H2() {
	firstChunked := zz.Choose("firstChunked", 2) == 1
	secondChunked := zz.Choose("secondChunked", 2) == 1
	nread := zz.Range("firstReads", 0, 3) // 3 reads of one byte run into the end of the truncated upload
	var w1 []byte
	if firstChunked {
		w1 = []byte("POST /u HTTP/1.1\r\nHost: h\r\nTransfer-Encoding: chunked\r\n\r\n5\r\nab") // cut inside the chunk
	} else {
		w1 = []byte("POST /u HTTP/1.1\r\nHost: h\r\nContent-Length: 9\r\n\r\nab") // 7 bytes missing
	}
	body := zz.Bytes("body2", 3)
	var w2 []byte
	if secondChunked {
		w2 = append([]byte("POST /v HTTP/1.1\r\nHost: h\r\nTransfer-Encoding: chunked\r\n\r\n3\r\n"), body...)
		w2 = append(w2, "\r\n0\r\n\r\n"...)
	} else {
		w2 = append([]byte("POST /v HTTP/1.1\r\nHost: h\r\nContent-Length: 3\r\n\r\n"), body...)
	}
	if secondChunked {
		// the healthy second connection stays usable (with a fixed-length second body this
		// prefetch limit is the region of the known finding C14-prefetch-swallows-pipelined, so
		// nothing is pipelined behind it)
		w2 = append(w2, zzSentinel...)
	}
	var got2 []byte
	eof2 := false
	calls := 0
	core := zzNewCore(func(c context.Context, ctx *app.RequestContext) {
		calls++
		if string(ctx.Request.RequestURI()) == "/s" {
			return
		}
		r := ctx.RequestBodyStream()
		if string(ctx.Request.RequestURI()) == "/u" {
			for i := 0; i < nread; i++ {
				buf := make([]byte, 1)
				r.Read(buf) //nolint:errcheck
			}
			return
		}
		for i := 0; i < 4; i++ {
			buf := make([]byte, 2)
			n, err := r.Read(buf)
			got2 = append(got2, buf[:n]...)
			if err == io.EOF {
				eof2 = true
				break
			}
			if err != nil {
				break
			}
		}
	})
	s := zzNewServer(core)
	s.StreamRequestBody = true
	s.MaxRequestBodySize = 1 // prefetch one byte only, the rest is streamed
	s.IdleTimeout = 1
	_ = s.Serve(context.Background(), standard.ZZNewConn(zz.NewNetConn(w1)))
	_ = s.Serve(context.Background(), standard.ZZNewConn(zz.NewNetConn(w2)))
	zz.Cover("reached-assert", true)
	zz.Cover("both-handled", calls >= 2)
	zz.Assert("second-request-handled", calls >= 2)
	if secondChunked {
		zz.Assert("healthy-connection-kept-after-the-second-request", calls == 3)
	}
	zz.Assert("second-body-exact", bytes.Equal(got2, body))
	zz.Assert("second-body-ends-with-eof", eof2)
}

// ZZ_C14_BIG: the 8 KiB regime: a fixed-length body longer than the prefetch limit (8 KiB), so
// its tail is read from the wire by the handler, with read buffers larger and smaller than what
// is left, followed by a pipelined sentinel.
func ZZ_C14_BIG() {
	l := 8192 + zz.Range("extra", 1, 9)
	if zz.Choose("long", 2) == 1 {
		l = 9000
	}
	body := make([]byte, l)
	for i := range body {
		body[i] = byte('a' + i%26)
	}
	sym := zz.Bytes("boundarybytes", 3)
	body[0], body[8191], body[l-1] = sym[0], sym[1], sym[2]
	wire := append([]byte("POST /b HTTP/1.1\r\nHost: h\r\nContent-Length: "), zzItoa(l)...)
	wire = append(wire, "\r\n\r\n"...)
	wire = append(wire, body...)
	bodyEnd := len(wire)
	wire = append(wire, zzSentinel...)
	rsize := []int{16, 4096, 8192, 16384}[zz.Choose("rsize", 4)]
	nreads := zz.Range("nreads", 0, 3)
	frag := []int{0, 4096, 5000, 3000}[zz.Choose("frag", 4)]
	nc := zz.NewNetConn(wire)
	if frag > 0 {
		nc.Frag = func(rem int) int { return frag }
	}
	// a transient fault (a read time-out, say): one wire read inside the body fails, the
	// following ones succeed
	transient := frag > 0 && zz.Choose("transientReadFault", 2) == 1
	if transient {
		nc.ReadErrAt = zz.Range("faultyRead", 2, 3) // with 3000-byte fragments read 3 is the first one past the 8 KiB prefetch
		nc.ReadErrOnce = true
	}
	var got []byte
	eofEarly, readErr := false, false
	calls := 0
	consumedAtSecond := -1
	core := zzNewCore(func(c context.Context, ctx *app.RequestContext) {
		calls++
		if calls == 1 {
			r := ctx.RequestBodyStream()
			for i := 0; i < nreads; i++ {
				buf := make([]byte, rsize)
				n, err := r.Read(buf)
				got = append(got, buf[:n]...)
				if err == io.EOF {
					if len(got) != len(body) {
						eofEarly = true
					}
					break
				} else if err != nil {
					readErr = true
				}
			}
			return
		}
		consumedAtSecond = nc.Pos - ctx.GetConn().Len()
	})
	s := zzNewServer(core)
	s.StreamRequestBody = true
	s.IdleTimeout = 1
	_ = s.Serve(context.Background(), standard.ZZNewConn(nc))
	_ = bodyEnd
	zz.Cover("reached-assert", true)
	zz.Cover("read-beyond-prefetch", len(got) > 8192)
	zz.Assert("no-read-error", !readErr || transient)
	zz.Cover("transient-fault-seen-by-the-handler", transient && readErr)
	// when the handler saw the fault and returned, the server answers requests, not pieces of the body: every
	// response on the wire belongs to a dispatched request
	if readErr {
		zz.Assert("no-response-to-bytes-of-the-body", bytes.Count(nc.Out, []byte("HTTP/1.1 ")) <= calls)
	}
	zz.Assert("bytes-read-are-a-prefix-of-the-body", len(got) <= len(body) && bytes.Equal(got, body[:minInt(len(got), len(body))]))
	zz.Assert("eof-only-at-end-of-body", !eofEarly)
	zz.Cover("pipelined-request-handled", calls == 2) // (that it must be handled is C01's clause: ZZ_C01_BIG)
	if calls == 2 {
		zz.Assert("next-request-parsed-from-first-byte-after-body", consumedAtSecond == len(wire))
	}
}

var zzTrailers = []string{
	"",                        // no trailer
	"X-T: v\r\n",              // ordinary trailer field
	"Content-Length: 3\r\n",   // framing field: not allowed in a trailer
	"X T: v\r\n",              // malformed field name
	"GET /t?x=: HTTP/1.1\r\n", // a trailer line that reads like a request line
	"X-T: v\r\nTransfer-Encoding: chunked\r\n", // allowed field followed by a forbidden one
}

// ZZ_C14_H3: chunked streamed body whose trailer section is ordinary, forbidden, malformed or
// symbolic; the handler stops after any number of reads. Whatever the server makes of the trailer
// (accept it, or refuse it and close), nothing but the pipelined sentinel may ever be dispatched
// as a second request, and the sentinel is parsed from the first byte after the message.
func ZZ_C14_H3() {
	sz := zz.Range("size", 1, zz.Param("S", 3))
	body := zz.Bytes("payload", sz)
	wire := []byte("POST /b HTTP/1.1\r\nHost: h\r\nTransfer-Encoding: chunked\r\n\r\n")
	wire = append(wire, byte('0'+sz))
	wire = append(wire, "\r\n"...)
	wire = append(wire, body...)
	wire = append(wire, "\r\n0\r\n"...)
	tr := zz.Choose("trailer", len(zzTrailers)+1)
	if tr < len(zzTrailers) {
		wire = append(wire, zzTrailers[tr]...)
	} else {
		// symbolic field name of two bytes (anything but CR, LF), value "v"
		name := zz.Bytes("trailername", 2)
		zz.Assume(name[0] != '\r' && name[0] != '\n' && name[1] != '\r' && name[1] != '\n')
		wire = append(wire, name...)
		wire = append(wire, ": v\r\n"...)
	}
	wire = append(wire, "\r\n"...)
	wire = append(wire, zzSentinel...)
	nreads := zz.Range("nreads", 0, zz.Param("R", 3))
	rsize := []int{1, 16}[zz.Choose("rsize", 2)]
	frag := zz.Range("frag", 0, 1)
	nc := zz.NewNetConn(wire)
	if frag > 0 {
		nc.Frag = func(rem int) int { return frag }
	}
	var got []byte
	var seen []zzSeen
	consumedAtSecond := -1
	core := zzNewCore(func(c context.Context, ctx *app.RequestContext) {
		s := zzSeen{method: string(ctx.Method()), uri: string(ctx.Request.RequestURI())}
		seen = append(seen, s)
		if len(seen) == 1 {
			r := ctx.RequestBodyStream()
			for i := 0; i < nreads; i++ {
				buf := make([]byte, rsize)
				n, err := r.Read(buf)
				got = append(got, buf[:n]...)
				if err != nil {
					break
				}
			}
		} else if len(seen) == 2 {
			consumedAtSecond = nc.Pos - ctx.GetConn().Len()
		}
		ctx.Response.SetBodyString("r" + s.uri)
	})
	s := zzNewServer(core)
	s.StreamRequestBody = true
	s.IdleTimeout = 1
	_ = s.Serve(context.Background(), standard.ZZNewConn(nc))
	zz.Cover("reached-assert", true)
	zz.Cover("connection-kept", len(seen) == 2)
	zz.Cover("connection-closed-after-first", len(seen) == 1)
	zz.Assert("first-handler-ran", len(seen) >= 1)
	zz.Assert("bytes-read-are-a-prefix-of-the-body", len(got) <= len(body) && bytes.Equal(got, body[:minInt(len(got), len(body))]))
	zz.Assert("at-most-the-sentinel-follows", len(seen) <= 2)
	if len(seen) >= 2 {
		zz.Assert("next-request-is-the-sentinel", seen[1].method == "GET" && seen[1].uri == "/s")
		zz.Assert("next-request-parsed-from-first-byte-after-message", consumedAtSecond == len(wire))
	}
	// (that an ordinary trailer keeps the connection is C01's clause, asserted by ZZ_C01_H3)
	zz.Cover("ordinary-trailer-kept-the-connection", tr <= 1 && len(seen) == 2)
}

// ZZ_C14_H4: two-fragment delivery with the cut at every position of the body region: the first
// read ends somewhere inside the (fixed-length or chunked) body, the second read delivers the
// rest of the body together with the pipelined sentinel in one piece. The handler stops after any
// number of small reads, so the release path has to drop body bytes that are not buffered yet and
// arrive bundled with bytes that are not body.
func ZZ_C14_H4() {
	chunked := zz.Choose("chunked", 2) == 1
	var wire, body []byte
	if !chunked {
		l := zz.Range("len", 1, zz.Param("L", 4))
		body = zz.Bytes("body", l)
		wire = []byte("POST /b HTTP/1.1\r\nHost: h\r\nContent-Length: ")
		wire = append(wire, byte('0'+l))
		wire = append(wire, "\r\n\r\n"...)
	} else {
		wire = []byte("POST /b HTTP/1.1\r\nHost: h\r\nTransfer-Encoding: chunked\r\n\r\n")
	}
	bodyStart := len(wire)
	if !chunked {
		wire = append(wire, body...)
	} else {
		nch := zz.Range("chunks", 1, zz.Param("C", 2))
		for i := 0; i < nch; i++ {
			sz := zz.Range("size", 1, zz.Param("S", 3))
			pl := zz.Bytes("payload", sz)
			wire = append(wire, byte('0'+sz))
			wire = append(wire, "\r\n"...)
			wire = append(wire, pl...)
			wire = append(wire, "\r\n"...)
			body = append(body, pl...)
		}
		wire = append(wire, "0\r\n\r\n"...)
	}
	bodyEnd := len(wire)
	wire = append(wire, zzSentinel...)
	cut := zz.Range("cut", bodyStart, bodyEnd)
	nreads := zz.Range("nreads", 0, zz.Param("R", 3))
	rsize := []int{1, 16}[zz.Choose("rsize", 2)]
	maxBody := 0 // (small prefetch limits are ZZ_C14_H1's subject, known finding included)
	nc := zz.NewNetConn(wire)
	nc.Frag = func(rem int) int {
		pos := len(wire) - rem
		if pos < cut {
			return cut - pos
		}
		return rem
	}
	var got []byte
	eofEarly, readErr := false, false
	var seen []zzSeen
	consumedAtSecond := -1
	core := zzNewCore(func(c context.Context, ctx *app.RequestContext) {
		s := zzSeen{method: string(ctx.Method()), uri: string(ctx.Request.RequestURI())}
		seen = append(seen, s)
		if len(seen) == 1 {
			r := ctx.RequestBodyStream()
			for i := 0; i < nreads; i++ {
				buf := make([]byte, rsize)
				n, err := r.Read(buf)
				got = append(got, buf[:n]...)
				if err == io.EOF {
					if len(got) != len(body) {
						eofEarly = true
					}
					break
				} else if err != nil {
					readErr = true
					break
				}
			}
		} else if len(seen) == 2 {
			consumedAtSecond = nc.Pos - ctx.GetConn().Len()
		}
		ctx.Response.SetBodyString("r" + s.uri)
	})
	s := zzNewServer(core)
	s.StreamRequestBody = true
	s.IdleTimeout = 1
	s.MaxRequestBodySize = maxBody
	_ = s.Serve(context.Background(), standard.ZZNewConn(nc))
	zz.Cover("reached-assert", true)
	zz.Cover("stopped-before-the-cut", len(got) < len(body))
	zz.Cover("sentinel-handled", len(seen) == 2)
	zz.Assert("first-handler-ran", len(seen) >= 1)
	zz.Assert("no-read-error-on-well-formed-body", !readErr)
	zz.Assert("bytes-read-are-a-prefix-of-the-body", len(got) <= len(body) && bytes.Equal(got, body[:minInt(len(got), len(body))]))
	zz.Assert("eof-only-at-end-of-body", !eofEarly)
	zz.Assert("at-most-the-sentinel-follows", len(seen) <= 2)
	if zz.Param("C01", 0) == 1 {
		// C01 clause: the stream is well-formed, the pipelined request must be handled too
		zz.Assert("pipelined-request-still-handled", len(seen) == 2)
	}
	if len(seen) >= 2 {
		zz.Assert("next-request-is-the-sentinel", seen[1].method == "GET" && seen[1].uri == "/s")
		zz.Assert("next-request-parsed-from-first-byte-after-body", consumedAtSecond == len(wire))
	}
	out := nc.Out
	pos, n := 0, 0
	for pos < len(out) {
		_, k, ok := zzReadResponse(out[pos:], false)
		if !ok {
			n = -1
			break
		}
		pos += k
		n++
	}
	zz.Assert("one-response-per-handled-request-and-nothing-else", n == len(seen))
}
