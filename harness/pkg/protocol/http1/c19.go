//go:build verif

package http1

import (
	"context"
	"strings"

	internalStats "github.com/cloudwego/hertz/internal/stats"
	zz "github.com/cloudwego/hertz/internal/zzverif"
	"github.com/cloudwego/hertz/pkg/app"
	"github.com/cloudwego/hertz/pkg/common/tracer/stats"
	"github.com/cloudwego/hertz/pkg/common/tracer/traceinfo"
	"github.com/cloudwego/hertz/pkg/network"
	"github.com/cloudwego/hertz/pkg/network/standard"
	"github.com/cloudwego/hertz/pkg/protocol"
)

// zzTracer records the call log of the real stats.Controller.
type zzTracer struct {
	log        []string // "S" / "F:<request uri seen at finish>"
	stagesOK   bool
	finishes   int
	unfinished bool
}

func (t *zzTracer) Start(ctx context.Context, c *app.RequestContext) context.Context {
	t.log = append(t.log, "S")
	return ctx
}

// stage events in causal order; within one pair every started stage must be finished and the
// recorded instants must be non-decreasing.
var zzStages = [][2]stats.Event{
	{stats.ReadHeaderStart, stats.ReadHeaderFinish},
	{stats.ReadBodyStart, stats.ReadBodyFinish},
	{stats.ServerHandleStart, stats.ServerHandleFinish},
	{stats.WriteStart, stats.WriteFinish},
}

func (t *zzTracer) Finish(ctx context.Context, c *app.RequestContext) {
	t.log = append(t.log, "F:"+string(c.Request.RequestURI()))
	t.finishes++
	ti := c.GetTraceInfo()
	if ti == nil {
		return
	}
	st := ti.Stats()
	hs, hf := st.GetEvent(stats.HTTPStart), st.GetEvent(stats.HTTPFinish)
	if hs == nil || hf == nil || hs.IsNil() || hf.IsNil() {
		t.stagesOK = false
		return
	}
	prev := hs.Time()
	for _, p := range zzStages {
		a, b := st.GetEvent(p[0]), st.GetEvent(p[1])
		aSet := a != nil && !a.IsNil()
		bSet := b != nil && !b.IsNil()
		if aSet != bSet {
			t.unfinished = true
			t.stagesOK = false
		}
		if aSet && bSet {
			if a.Time().Before(prev) || b.Time().Before(a.Time()) {
				t.stagesOK = false
			}
			prev = b.Time()
		}
	}
	if hf.Time().Before(prev) {
		t.stagesOK = false
	}
}

// well-formed log: strictly alternating S F S F ..., starting with S, ending with F.
func zzAlternates(log []string) bool {
	for i, e := range log {
		if i%2 == 0 && e != "S" {
			return false
		}
		if i%2 == 1 && (len(e) < 2 || e[0] != 'F') {
			return false
		}
	}
	return len(log)%2 == 0
}

// ZZ_C19_H1: tracer start/finish pairing over connection histories: k template requests, a
// handler outcome per request, at most one injected I/O fault (read or write side, every
// operation index), keep-alive or close, idle timeout zero / non-zero.
func ZZ_C19_H1() {
	k := zz.Range("k", 1, zz.Param("K", 2))
	// the application's ContinueHandler declines every Expect: 100-continue request: it is
	// answered 417 without its body being read, and the client - as the expectation mechanism
	// has it - does not send the body
	declines, asked := false, false
	var wire []byte
	var uris []string
	for i := 0; i < k; i++ {
		t := zz.Choose("tmpl", len(zzTemplates)+2)
		if (t == 4 || t == 7) && !asked {
			declines, asked = zz.Choose("continueHandlerDeclines", 2) == 1, true
		}
		if declines && (t == 4 || t == 7) {
			w := zzTemplates[t].wire
			wire = append(wire, w[:strings.Index(w, "\r\n\r\n")+4]...)
			uris = append(uris, zzTemplates[t].uri)
			continue
		}
		if t >= len(zzTemplates) {
			// malformed header block: refused with a 4xx before any handler
			wire = append(wire, []string{"GET /m HTTP/1.1\r\nBad Header\r\n\r\n", "GET /n HTTP/1.1\r\nHost: h\r\nContent-Length: x\r\n\r\n"}[t-len(zzTemplates)]...)
			uris = append(uris, "/malformed")
			break
		}
		wire = append(wire, zzTemplates[t].wire...)
		uris = append(uris, zzTemplates[t].uri)
		if zzTemplates[t].closes {
			break
		}
	}
	truncate := false
	if len(uris) <= zz.Param("TRUNCK", 1) {
		truncate = zz.Choose("truncate", 2) == 1
	}
	if truncate {
		// peer closes in the middle of the last message
		cut := zz.Range("cut", 1, len(wire)-1)
		wire = wire[:cut]
	}
	fault := zz.Choose("fault", 3) // 0 none, 1 read error, 2 write error
	if !truncate && fault == 0 {
		// a few stray bytes after the last message (a client that ends its POST with CRLF), then
		// the peer closes: no request, so no further start/finish pair
		wire = append(wire, []string{"", "\r\n", "\r"}[zz.Choose("stray", 3)]...)
	}
	nc := zz.NewNetConn(wire)
	// the failing operation index is a symbolic integer: the executor forks lazily at each I/O
	// operation on "is this the one that fails?", decided by the solver
	switch fault {
	case 1:
		at := zz.Int("readErrAt")
		zz.Assume(at >= 0 && at <= zz.Param("OPS", 3))
		nc.ReadErrAt = at
	case 2:
		at := zz.Int("writeErrAt")
		zz.Assume(at >= 0 && at <= zz.Param("OPS", 3))
		nc.WriteErrAt = at
	}
	outcome := zz.Choose("outcome", 4) // 0 ok, 1 Connection: close, 2 panic recovered by the core, 3 hijack
	tr := &zzTracer{stagesOK: true}
	ctl := &internalStats.Controller{}
	ctl.Append(tr)
	var handled []string
	hijacked := 0
	core := zzNewCore(nil)
	core.handler = func(c context.Context, ctx *app.RequestContext) {
		handled = append(handled, string(ctx.Request.RequestURI()))
		switch outcome {
		case 1:
			ctx.Response.Header.SetConnectionClose(true)
		case 2:
			func() {
				defer func() { recover() }()
				panic("handler panic")
			}()
			ctx.SetStatusCode(500)
		case 3:
			ctx.Hijack(func(c network.Conn) { hijacked++ })
		}
		ctx.Response.SetBodyString("ok")
	}
	core.tracer = ctl
	core.pool.New = func() interface{} {
		ctx := app.NewContext(0)
		ti := traceinfo.NewTraceInfo()
		ti.Stats().SetLevel(stats.LevelDetailed)
		ctx.SetTraceInfo(ti)
		return ctx
	}
	s := zzNewServer(core)
	s.EnableTrace = true
	s.HijackConnHandle = func(c network.Conn, h app.HijackHandler) { h(c) }
	s.StreamRequestBody = zz.Choose("stream", 2) == 1
	s.DisableKeepalive = zz.Choose("nokeepalive", 2) == 1
	if declines {
		s.ContinueHandler = func(h *protocol.RequestHeader) bool { return false }
	}
	// (crossed with handler outcomes, not with injected I/O faults: keeps the quick tier small)
	if fault == 0 && zz.Choose("tinyBodyLimit", 2) == 1 {
		s.MaxRequestBodySize = 1 // bodies of the POST templates are refused as too large
	}
	if zz.Choose("idle", 2) == 1 {
		s.IdleTimeout = 1
	}
	_ = s.Serve(context.Background(), standard.ZZNewConn(nc))
	zz.Cover("reached-assert", true)
	zz.Cover("two-handled", len(handled) == 2)
	zz.Cover("hijacked", hijacked > 0)
	zz.Cover("fault-hit", fault != 0 && len(handled) < len(uris))
	zz.Assert("start-finish-alternate", zzAlternates(tr.log))
	// every handled request lies inside a pair whose finish carries that request's target
	ok := true
	for i, u := range handled {
		if 2*i+1 >= len(tr.log) || tr.log[2*i+1] != "F:"+u {
			ok = false
		}
	}
	zz.Assert("each-handled-request-bracketed-by-its-own-pair", ok)
	// no pair without a request: at most one start per request the peer sent (stray line ends
	// before the connection closes are not a request)
	zz.Assert("no-pair-without-a-request", len(tr.log) <= 2*len(uris))
	zz.Assert("stages-ordered-and-finished", tr.stagesOK)
}

// ZZ_C19_H3: three requests on one keep-alive connection (the per-request reset of the trace
// data happens between requests, so an effect that needs two resets only shows on the third):
// each of plain GET, POST with a body, and a malformed header block; every pair carries its own
// request's data and stage events only.
func ZZ_C19_H3() {
	var wire []byte
	var uris []string
	for i := 0; i < 3; i++ {
		t := zz.Choose("tmpl", 3)
		switch t {
		case 0:
			wire = append(wire, zzTemplates[0].wire...)
			uris = append(uris, zzTemplates[0].uri)
		case 1:
			wire = append(wire, zzTemplates[1].wire...)
			uris = append(uris, zzTemplates[1].uri)
		case 2:
			wire = append(wire, "GET /m HTTP/1.1\r\nBad Header\r\n\r\n"...)
			uris = append(uris, "/malformed")
		}
		if t == 2 {
			break
		}
	}
	nc := zz.NewNetConn(wire)
	tr := &zzTracer{stagesOK: true}
	ctl := &internalStats.Controller{}
	ctl.Append(tr)
	var handled []string
	core := zzNewCore(nil)
	core.handler = func(c context.Context, ctx *app.RequestContext) {
		handled = append(handled, string(ctx.Request.RequestURI()))
		ctx.Response.SetBodyString("ok")
	}
	core.tracer = ctl
	core.pool.New = func() interface{} {
		ctx := app.NewContext(0)
		ti := traceinfo.NewTraceInfo()
		ti.Stats().SetLevel(stats.LevelDetailed)
		ctx.SetTraceInfo(ti)
		return ctx
	}
	s := zzNewServer(core)
	s.EnableTrace = true
	s.IdleTimeout = 1
	s.StreamRequestBody = zz.Choose("stream", 2) == 1
	_ = s.Serve(context.Background(), standard.ZZNewConn(nc))
	zz.Cover("reached-assert", true)
	zz.Cover("three-pairs", len(tr.log) == 6)
	zz.Assert("start-finish-alternate", zzAlternates(tr.log))
	ok := true
	for i, u := range handled {
		if 2*i+1 >= len(tr.log) || tr.log[2*i+1] != "F:"+u {
			ok = false
		}
	}
	zz.Assert("each-handled-request-bracketed-by-its-own-pair", ok)
	zz.Assert("no-pair-without-a-request", len(tr.log) <= 2*len(uris))
	zz.Assert("stages-ordered-and-finished", tr.stagesOK)
}

// ZZ_C19_H4: two connections, one after the other, served by one server: the request context
// goes back to the pool when the first connection ends and is taken out again for the second
// (sync.Pool modelled LIFO). The first connection carries one or two complete requests, the
// second a complete request or a malformed header block (an exchange that ends early, so only
// some stages run): every pair carries its own request's stage events only - nothing recorded on
// the earlier connection shows in a later finish.
func ZZ_C19_H4() {
	tr := &zzTracer{stagesOK: true}
	ctl := &internalStats.Controller{}
	ctl.Append(tr)
	var handled []string
	core := zzNewCore(nil)
	closeAt := -1 // index of the handled request whose handler asks for the connection to be closed
	core.handler = func(c context.Context, ctx *app.RequestContext) {
		if len(handled) == closeAt {
			// server-initiated close: the keep-alive loop is left right after this response,
			// without the per-request reset
			ctx.Response.Header.SetConnectionClose(true)
		}
		handled = append(handled, string(ctx.Request.RequestURI()))
		ctx.Response.SetBodyString("ok")
	}
	core.tracer = ctl
	created := 0
	core.pool.New = func() interface{} {
		created++
		ctx := app.NewContext(0)
		ti := traceinfo.NewTraceInfo()
		ti.Stats().SetLevel(stats.LevelDetailed)
		ctx.SetTraceInfo(ti)
		return ctx
	}
	s := zzNewServer(core)
	s.EnableTrace = true
	s.IdleTimeout = 1
	s.StreamRequestBody = zz.Choose("stream", 2) == 1
	nreq := 0
	for conn := 0; conn < 2; conn++ {
		var wire []byte
		k := 1
		if conn == 0 {
			k = zz.Range("requestsOnFirst", 1, 2)
			if zz.Choose("firstConnectionClosedByServer", 2) == 1 {
				closeAt = k - 1
			}
		}
		for i := 0; i < k; i++ {
			t := zz.Choose("tmpl", 3)
			if conn == 0 && t == 2 {
				t = 1
			}
			switch t {
			case 0:
				wire = append(wire, zzTemplates[0].wire...)
			case 1:
				wire = append(wire, zzTemplates[1].wire...)
			case 2:
				wire = append(wire, "GET /m HTTP/1.1\r\nBad Header\r\n\r\n"...)
			}
			nreq++
		}
		nc := zz.NewNetConn(wire)
		_ = s.Serve(context.Background(), standard.ZZNewConn(nc))
	}
	zz.Cover("reached-assert", true)
	zz.Cover("context-recycled-across-connections", created == 1)
	zz.Assert("start-finish-alternate", zzAlternates(tr.log))
	ok := true
	for i, u := range handled {
		if 2*i+1 >= len(tr.log) || tr.log[2*i+1] != "F:"+u {
			ok = false
		}
	}
	zz.Assert("each-handled-request-bracketed-by-its-own-pair", ok)
	zz.Assert("no-pair-without-a-request", len(tr.log) <= 2*nreq)
	zz.Assert("stages-ordered-and-finished", tr.stagesOK)
}
