//go:build verif

package http1

import (
	"github.com/cloudwego/hertz/internal/bytesconv"
	zz "github.com/cloudwego/hertz/internal/zzverif"
	"github.com/cloudwego/hertz/pkg/network/standard"
)

// zzCountResponses parses out as a sequence of well-formed responses.
// finals = number with status >= 200; lastStatus/lastClose describe the last final response.
func zzCountResponses(out []byte) (finals int, lastStatus int, lastClose bool, firstErrAt int, ok bool) {
	pos := 0
	firstErrAt = -1
	for pos < len(out) {
		r, k, good := zzReadResponse(out[pos:], false)
		if !good || k == 0 {
			return finals, lastStatus, lastClose, firstErrAt, false
		}
		pos += k
		if r.status >= 200 {
			if r.status >= 400 && firstErrAt < 0 {
				firstErrAt = finals
			}
			finals++
			lastStatus, lastClose = r.status, r.close
		}
	}
	return finals, lastStatus, lastClose, firstErrAt, true
}

// ZZ_C03_SRV: server read path under corruption. A valid request (followed by a sentinel) has
// W adjacent positions - every position - replaced by symbolic bytes. No panic escapes Serve,
// every byte written is part of a well-formed response, each handled request gets exactly one
// response, and a rejected request gets exactly one 4xx carrying Connection: close, runs no
// handler and is the last thing on the connection.
func ZZ_C03_SRV() {
	t := zz.Choose("tmpl", 5)
	wire := append([]byte(zzTemplates[t].wire), zzSentinel...)
	w := zz.Param("W", 1)
	p := zz.Range("pos", 0, len(zzTemplates[t].wire)-w)
	sym := zz.Bytes("sym", w)
	copy(wire[p:], sym)
	stream := zz.Choose("stream", 2) == 1
	small := zz.Choose("smallmax", 2) == 1
	r := zzRun(wire, 0, stream, func(s *Server) {
		if small {
			s.MaxRequestBodySize = 3
		}
	})
	finals, lastStatus, lastClose, firstErrAt, ok := zzCountResponses(r.out)
	zz.Cover("reached-assert", true)
	zz.Cover("rejected", ok && finals == len(r.seen)+1)
	zz.Cover("accepted-both", len(r.seen) == 2)
	zz.Assert("only-well-formed-responses-on-the-wire", ok)
	if !ok {
		return
	}
	zz.Assert("responses-match-handled-requests", finals == len(r.seen) || finals == len(r.seen)+1)
	if finals == len(r.seen)+1 {
		// the extra response is the server's own rejection
		zz.Assert("rejection-is-4xx", lastStatus >= 400 && lastStatus < 500)
		zz.Assert("rejection-carries-connection-close", lastClose)
		zz.Assert("rejection-is-last-on-connection", firstErrAt == finals-1)
		zz.Assert("serve-returned-error-after-rejection", r.err != nil)
	}
}

// ZZ_C18_H1: exit check. If the engine stops running while a handler executes, that request's
// response is complete, carries Connection: close, and Serve ends the connection afterwards
// without handling the next pipelined request.
func ZZ_C18_H1() {
	t := []int{0, 1, 2, 3, 4, 5, 7, 8}[zz.Choose("tmpl", 8)] // all templates but HEAD (the response counter assumes bodies)
	wire := append([]byte(zzTemplates[t].wire), zzSentinel...)
	stream := zz.Choose("stream", 2) == 1
	stopAt := zz.Int("stopAt") // index of the request during which shutdown begins (symbolic)
	zz.Assume(stopAt >= 0 && stopAt <= 2)
	calls := 0
	r := zzRun(wire, 0, stream, func(s *Server) {
		core := s.Core.(*zzCore)
		core.running = func() bool {
			calls++
			return calls-1 < stopAt
		}
	})
	finals, lastStatus, lastClose, _, ok := zzCountResponses(r.out)
	zz.Cover("reached-assert", true)
	zz.Cover("stopped-during-first", len(r.seen) == 1 && !zzTemplates[t].closes)
	zz.Assert("responses-well-formed-and-complete", ok)
	zz.Assert("one-response-per-handled-request", finals == len(r.seen))
	if stopAt < len(r.seen) || (stopAt == 0 && len(r.seen) >= 1) {
		zz.Assert("no-request-handled-after-shutdown-began", len(r.seen) == stopAt+1)
		zz.Assert("last-response-carries-connection-close", lastClose && lastStatus == 200)
		zz.Assert("serve-returns-short-connection", r.err == errShortConnection)
	}
}

// ZZ_C03_HexInt: chunk-size parser on symbolic text of up to L bytes: never panics, and never
// reports a negative size (a negative size would defeat the body-size limit and crash later).
func ZZ_C03_HexInt() {
	l := zz.Range("len", 0, zz.Param("L", 17))
	txt := zz.Bytes("sizetext", l)
	wire := append(append([]byte(nil), txt...), "\r\nrest"...)
	conn := standard.ZZNewConn(zz.NewNetConn(wire))
	n, err := bytesconv.ReadHexInt(conn)
	zz.Cover("reached-assert", true)
	zz.Cover("parsed", err == nil)
	if err == nil {
		zz.Assert("chunk-size-non-negative", n >= 0)
	}
}
