//go:build verif

package http1

import (
	"context"

	"github.com/cloudwego/hertz/internal/bytesconv"
	zz "github.com/cloudwego/hertz/internal/zzverif"
	"github.com/cloudwego/hertz/pkg/app"
	"github.com/cloudwego/hertz/pkg/network/standard"
)

// zzCountResponses parses out as a sequence of well-formed responses.
// finals = number with status >= 200; lastStatus/lastClose describe the last final response.
func zzCountResponses(out []byte) (finals int, lastStatus int, lastClose bool, firstErrAt int, ok bool) {
	pos := 0
	firstErrAt = -1
	for pos < len(out) {
		r, k, good := zzReadResponse(out[pos:], false)
		if !good || k == 0 {
			return finals, lastStatus, lastClose, firstErrAt, false
		}
		pos += k
		if r.status >= 200 {
			if r.status >= 400 && firstErrAt < 0 {
				firstErrAt = finals
			}
			finals++
			lastStatus, lastClose = r.status, r.close
		}
	}
	return finals, lastStatus, lastClose, firstErrAt, true
}

var zzHexTable = func() (t [256]bool) {
	for _, c := range []byte("0123456789abcdefABCDEF") {
		t[c] = true
	}
	return
}()

// ZZ_C03_SRV: server read path under corruption. A valid request (followed by a sentinel) has
// W adjacent positions - every position - replaced by symbolic bytes. No panic escapes Serve,
// every byte written is part of a well-formed response, each handled request gets exactly one
// response, and a rejected request gets exactly one 4xx carrying Connection: close, runs no
// handler and is the last thing on the connection.
func ZZ_C03_SRV() {
	t := zz.Choose("tmpl", 5)
	wire := append([]byte(zzTemplates[t].wire), zzSentinel...)
	w := zz.Param("W", 1)
	p := zz.Range("pos", 0, len(zzTemplates[t].wire)-w)
	sym := zz.Bytes("sym", w)
	if w >= 2 {
		// stated cut: two adjacent symbolic bytes that are both hexadecimal digits would make a
		// multi-digit chunk size / Content-Length symbolic, and with it the shape of the heap
		// (buffers of up to 1 MiB); every single symbolic byte, digits included, is covered at W=1
		zz.Assume(!(zzHexTable[sym[0]] && zzHexTable[sym[1]]))
	}
	copy(wire[p:], sym)
	stream := zz.Choose("stream", 2) == 1
	small := zz.Choose("smallmax", 2) == 1
	r := zzRun(wire, 0, stream, func(s *Server) {
		if small {
			s.MaxRequestBodySize = 1 // every template body but the one-byte one is over the limit, the Expect: 100-continue ones included
		}
	})
	finals, lastStatus, lastClose, firstErrAt, ok := zzCountResponses(r.out)
	zz.Cover("reached-assert", true)
	zz.Cover("rejected", ok && finals == len(r.seen)+1)
	zz.Cover("accepted-both", len(r.seen) == 2)
	zz.Assert("only-well-formed-responses-on-the-wire", ok)
	if !ok {
		return
	}
	zz.Assert("responses-match-handled-requests", finals == len(r.seen) || finals == len(r.seen)+1)
	if finals == len(r.seen)+1 {
		// the extra response is the server's own rejection
		zz.Assert("rejection-is-4xx", lastStatus >= 400 && lastStatus < 500)
		zz.Assert("rejection-carries-connection-close", lastClose)
		zz.Assert("rejection-is-last-on-connection", firstErrAt == finals-1)
		zz.Assert("serve-returned-error-after-rejection", r.err != nil)
	}
}

// ZZ_C18_H1: exit check. If the engine stops running while a handler executes, that request's
// response is complete, carries Connection: close, and Serve ends the connection afterwards
// without handling the next pipelined request.
func ZZ_C18_H1() {
	t := []int{0, 1, 2, 3, 4, 5, 7, 8}[zz.Choose("tmpl", 8)] // all templates but HEAD (the response counter assumes bodies)
	wire := append([]byte(zzTemplates[t].wire), zzSentinel...)
	stream := zz.Choose("stream", 2) == 1
	stopAt := zz.Int("stopAt") // index of the request during which shutdown begins (symbolic)
	zz.Assume(stopAt >= 0 && stopAt <= 2)
	calls := 0
	r := zzRun(wire, 0, stream, func(s *Server) {
		core := s.Core.(*zzCore)
		core.running = func() bool {
			calls++
			return calls-1 < stopAt
		}
	})
	finals, lastStatus, lastClose, _, ok := zzCountResponses(r.out)
	zz.Cover("reached-assert", true)
	zz.Cover("stopped-during-first", len(r.seen) == 1 && !zzTemplates[t].closes)
	zz.Assert("responses-well-formed-and-complete", ok)
	zz.Assert("one-response-per-handled-request", finals == len(r.seen))
	if stopAt < len(r.seen) || (stopAt == 0 && len(r.seen) >= 1) {
		zz.Assert("no-request-handled-after-shutdown-began", len(r.seen) == stopAt+1)
		zz.Assert("last-response-carries-connection-close", lastClose && lastStatus == 200)
		zz.Assert("serve-returns-short-connection", r.err == errShortConnection)
	}
}

// ZZ_C03_HexInt: chunk-size parser on symbolic text of up to L bytes: never panics, and never
// reports a negative size (a negative size would defeat the body-size limit and crash later).
func ZZ_C03_HexInt() {
	l := zz.Range("len", 0, zz.Param("L", 17))
	txt := zz.Bytes("sizetext", l)
	wire := append(append([]byte(nil), txt...), "\r\nrest"...)
	conn := standard.ZZNewConn(zz.NewNetConn(wire))
	n, err := bytesconv.ReadHexInt(conn)
	zz.Cover("reached-assert", true)
	zz.Cover("parsed", err == nil)
	if err == nil {
		zz.Assert("chunk-size-non-negative", n >= 0)
	}
}

// ZZ_C03_MP: a multipart/form-data request (default form pre-parsing) whose declared length is
// above the configured body limit, or whose form is cut short / corrupted at a symbolic byte:
// no panic; a refused request gets exactly one 4xx carrying Connection: close, its handler does
// not run and nothing else is served on the connection.
func ZZ_C03_MP() {
	val := zz.Bytes("fieldvalue", 2)
	mp := []byte("--b\r\nContent-Disposition: form-data; name=\"f\"\r\n\r\n")
	mp = append(mp, val...)
	mp = append(mp, "\r\n--b--\r\n"...)
	mode := zz.Choose("mode", 3) // 0 over the limit, 1 one corrupted byte in the form, 2 intact
	if mode == 1 {
		p := zz.Range("pos", 0, len(mp)-1)
		cb := zz.Byte("corrupt")
		zz.Assume(cb < 0x80) // ASCII: the executor does not decode multi-byte runes with a symbolic lead byte
		mp[p] = cb
	}
	wire := []byte("POST /a HTTP/1.1\r\nHost: h\r\nContent-Type: multipart/form-data; boundary=b\r\nContent-Length: ")
	wire = append(wire, zzItoa(len(mp))...)
	wire = append(wire, "\r\n\r\n"...)
	wire = append(wire, mp...)
	wire = append(wire, zzSentinel...)
	nc := zz.NewNetConn(wire)
	var seen []string
	core := zzNewCore(func(c context.Context, ctx *app.RequestContext) {
		seen = append(seen, string(ctx.Request.RequestURI()))
		_ = ctx.FormValue("f")
	})
	s := zzNewServer(core)
	s.DisablePreParseMultipartForm = false
	s.IdleTimeout = 1
	if mode == 0 {
		s.MaxRequestBodySize = 10
	}
	err := s.Serve(context.Background(), standard.ZZNewConn(nc))
	zz.Cover("reached-assert", true)
	out := nc.Out
	// every response on the wire is well-formed
	pos, n, last := 0, 0, zzResp{}
	for pos < len(out) {
		r, k, ok := zzReadResponse(out[pos:], false)
		if !ok {
			n = -1
			break
		}
		pos += k
		n++
		last = r
	}
	zz.Assert("only-well-formed-responses", n >= 0)
	if mode == 0 {
		zz.Cover("over-limit", true)
		zz.Assert("over-limit-body-refused-before-any-handler", len(seen) == 0)
		zz.Assert("exactly-one-4xx-with-connection-close", n == 1 && last.status/100 == 4 && last.close && err != nil)
	}
	if mode == 2 {
		zz.Assert("intact-form-and-sentinel-handled", len(seen) == 2)
	}
	if n >= 0 && len(seen) < 2 && mode == 1 {
		zz.Cover("corrupted-form-refused", len(seen) == 0)
		if len(seen) == 0 {
			zz.Assert("refusal-is-one-4xx-with-connection-close", n == 1 && last.status/100 == 4 && last.close)
		}
	}
}

// ZZ_C03_LIMIT: "a request whose body exceeds the configured limit is rejected - with buffered
// bodies always": every template request that has a body (fixed length, chunked, with and
// without Expect: 100-continue, HTTP/1.0, GET/HEAD with a body), buffered mode, the limit one
// byte below the body length, delivered whole or byte-wise: exactly one 4xx with Connection:
// close (after at most an interim 100 Continue), no handler, nothing afterwards.
func ZZ_C03_LIMIT() {
	withBody := []int{1, 2, 4, 7, 9, 10} // (template 8 has a one-byte body: no positive limit lies below it)
	t := withBody[zz.Choose("tmpl", len(withBody))]
	tp := zzTemplates[t]
	wire := append([]byte(tp.wire), zzSentinel...)
	frag := zz.Choose("bytewise", 2)
	r := zzRun(wire, frag, false, func(s *Server) {
		s.MaxRequestBodySize = len(tp.body) - 1
	})
	finals, lastStatus, lastClose, _, ok := zzCountResponses(r.out)
	zz.Cover("reached-assert", true)
	zz.Assert("only-well-formed-responses-on-the-wire", ok)
	zz.Assert("no-handler-for-the-over-limit-request", len(r.seen) == 0)
	zz.Assert("exactly-one-4xx-carrying-connection-close", finals == 1 && lastStatus >= 400 && lastStatus < 500 && lastClose)
	zz.Assert("serve-ends-the-connection", r.err != nil)
}
