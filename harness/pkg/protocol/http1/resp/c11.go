//go:build verif

package resp

import (
	"bytes"
	"errors"
	"io"
	"runtime"

	zz "github.com/cloudwego/hertz/internal/zzverif"
	errs "github.com/cloudwego/hertz/pkg/common/errors"
	"github.com/cloudwego/hertz/pkg/network"
	"github.com/cloudwego/hertz/pkg/network/standard"
	"github.com/cloudwego/hertz/pkg/protocol"
)

// a response template: B marks the three body bytes, V the header value byte
type zzRespTmpl struct {
	wire      string
	status    int
	hasBody   bool
	untilEOF  bool
	hasHeader bool
}

var zzRespTemplates = []zzRespTmpl{
	{"HTTP/1.1 200 OK\r\nServer: srv\r\nContent-Type: t\r\nContent-Encoding: e\r\nContent-Length: 3\r\nX-A: V\r\nSet-Cookie: k=v\r\n\r\nBBB", 200, true, false, true},
	{"HTTP/1.1 200 OK\r\nTransfer-Encoding: chunked\r\nX-A: V\r\n\r\n2\r\nBB\r\n1\r\nB\r\n0\r\nX-T: w\r\n\r\n", 200, true, false, true},
	{"HTTP/1.1 204 No Content\r\nX-A: V\r\n\r\n", 204, false, false, true},
	{"HTTP/1.1 304 Not Modified\r\nX-A: V\r\nContent-Length: 7\r\n\r\n", 304, false, false, true},
	{"HTTP/1.1 100 Continue\r\n\r\nHTTP/1.1 201 Created\r\nX-A: V\r\nContent-Length: 3\r\n\r\nBBB", 201, true, false, true},
	{"HTTP/1.1 200 OK\r\nX-A: V\r\nConnection: close\r\n\r\nBBB", 200, true, true, true},
	// delimited by the end of the connection without saying so: the connection must still be
	// reported as not reusable
	{"HTTP/1.1 200 OK\r\nX-A: V\r\n\r\nBBB", 200, true, true, true},
	// obs-folded header value (two continuation lines)
	{"HTTP/1.1 200 OK\r\nX-N: first\r\n second\r\n\tthird\r\nContent-Length: 3\r\nX-A: V\r\n\r\nBBB", 200, true, false, true},
}

const zzSecondResp = "HTTP/1.1 202 Accepted\r\nContent-Length: 1\r\n\r\nk"

type zzRespView struct {
	err      error
	status   int
	body     []byte
	xa       []byte
	tooLarge bool
	hdr      []byte // every header field the caller can see, plus flags
	err2     error
	status2  int
	body2    []byte
	hdr2     []byte
}

func zzReadStreamAll(r io.Reader) ([]byte, error) {
	var out []byte
	buf := make([]byte, 2)
	for i := 0; i < 16; i++ {
		n, err := r.Read(buf)
		out = append(out, buf[:n]...)
		if err == io.EOF {
			return out, nil
		}
		if err != nil {
			return out, err
		}
	}
	return out, nil
}

func zzDumpHeader(r *protocol.Response) []byte {
	var b []byte
	r.Header.VisitAll(func(k, v []byte) {
		b = append(b, k...)
		b = append(b, '=')
		b = append(b, v...)
		b = append(b, ';')
	})
	if r.ConnectionClose() {
		b = append(b, "|close"...)
	}
	return b
}

func zzClientRead(wire []byte, splits []int, stream bool, maxBody int, second bool) zzRespView {
	return zzClientRead2(wire, splits, stream, maxBody, second, false)
}

// reuse: the second response is read into the object that held the first one (as a caller that
// keeps one Response for a sequence of exchanges does)
func zzClientRead2(wire []byte, splits []int, stream bool, maxBody int, second, reuse bool) zzRespView {
	nc := zz.NewNetConn(wire)
	if len(splits) > 0 {
		nc.Frag = func(rem int) int {
			pos := len(wire) - rem
			for _, s := range splits {
				if s > pos {
					return s - pos
				}
			}
			return rem
		}
	}
	var conn network.Conn = standard.ZZNewConn(nc)
	var v zzRespView
	var r protocol.Response
	if stream {
		v.err = ReadHeaderBodyStream(&r, conn, maxBody, func(shouldClose bool) error { return nil })
		if v.err == nil {
			v.status = r.StatusCode()
			v.xa = append([]byte(nil), r.Header.Peek("X-A")...)
			v.hdr = zzDumpHeader(&r)
			if r.IsBodyStream() {
				b, e := zzReadStreamAll(r.BodyStream())
				v.body = b
				if e != nil {
					v.err = e
				}
				r.CloseBodyStream() //nolint:errcheck
			} else {
				v.body = append([]byte(nil), r.Body()...)
			}
		}
	} else {
		v.err = ReadHeaderAndLimitBody(&r, conn, maxBody)
		if v.err == nil {
			v.status = r.StatusCode()
			v.xa = append([]byte(nil), r.Header.Peek("X-A")...)
			v.hdr = zzDumpHeader(&r)
			v.body = append([]byte(nil), r.Body()...)
		} else if errors.Is(v.err, errs.ErrBodyTooLarge) {
			v.tooLarge = true
		}
	}
	if second && v.err == nil {
		r2 := &protocol.Response{}
		if reuse {
			r2 = &r
		}
		v.err2 = ReadHeaderAndLimitBody(r2, conn, 0)
		if v.err2 == nil {
			v.status2 = r2.StatusCode()
			v.body2 = append([]byte(nil), r2.Body()...)
			v.hdr2 = zzDumpHeader(r2)
			v.hdr2 = append(v.hdr2, '|')
			v.hdr2 = append(v.hdr2, r2.Header.Server()...)
			v.hdr2 = append(v.hdr2, '|')
			v.hdr2 = append(v.hdr2, r2.Header.ContentType()...)
			v.hdr2 = append(v.hdr2, '|')
			v.hdr2 = append(v.hdr2, r2.Header.ContentEncoding()...)
		}
	}
	return v
}

// ZZ_C11_H2: the client's response reader returns the status, the header field and the body the
// wire carries (body bytes and one header value byte symbolic), for fixed-length, chunked with
// trailer, bodiless statuses, 100-continue interim and read-until-close responses, buffered and
// streaming; enforces the maximum body size in buffered mode; and leaves the connection at the
// first byte of the next response. The same bytes cut at any split point give the same result
// (C02, client direction).
func ZZ_C11_H2() {
	t := zz.Choose("tmpl", len(zzRespTemplates))
	tp := zzRespTemplates[t]
	wire := []byte(tp.wire)
	body := zz.Bytes("body", 3)
	hv := zz.Byte("headervalue")
	zz.Assume(hv > ' ' && hv < 0x7f)
	bi := 0
	for i := range wire {
		switch wire[i] {
		case 'B':
			wire[i] = body[bi]
			bi++
		case 'V':
			wire[i] = hv
		}
	}
	second := !tp.untilEOF
	if second {
		wire = append(wire, zzSecondResp...)
	}
	stream := zz.Choose("stream", 2) == 1
	maxBody := []int{0, 2, 3, 5}[zz.Choose("maxbody", 4)] // 3 = exactly the body length
	whole := zzClientRead(append([]byte(nil), wire...), nil, stream, maxBody, second)
	zz.Cover("reached-assert", true)
	// known finding, same root cause as C14-prefetch-swallows-pipelined (client direction): in
	// streaming mode with 0 < MaxResponseBodySize < Content-Length the prefetch takes the bytes of
	// the next response as well
	_ = zz.Known("C11-prefetch-swallows-next-response", stream && maxBody == 2 && tp.hasBody && !tp.untilEOF && t != 1)
	limited := !stream && maxBody == 2 && tp.hasBody
	if limited {
		zz.Cover("too-large", true)
		zz.Assert("body-over-limit-is-refused", whole.tooLarge)
	} else {
		zz.Assert("no-error", whole.err == nil)
		if whole.err != nil {
			return
		}
		zz.Assert("status", whole.status == tp.status)
		zz.Assert("header-value", len(whole.xa) == 1 && whole.xa[0] == hv)
		zz.Assert("connection-close-flag-iff-announced-or-close-delimited", bytes.HasSuffix(whole.hdr, []byte("|close")) == tp.untilEOF)
		if tp.hasBody {
			zz.Assert("body", bytes.Equal(whole.body, body))
		} else {
			zz.Assert("no-body-on-bodiless-status", len(whole.body) == 0)
		}
		if second {
			zz.Assert("next-response-intact", whole.err2 == nil && whole.status2 == 202 && string(whole.body2) == "k")
			if !stream {
				// a caller that keeps one Response object for consecutive exchanges sees the same
				// second response as one that uses a fresh object
				re := zzClientRead2(append([]byte(nil), wire...), nil, stream, maxBody, true, true)
				zz.Cover("object-reused", true)
				zz.Assert("next-response-identical-in-a-reused-object", re.err2 == nil && re.status2 == whole.status2 && bytes.Equal(re.body2, whole.body2) && bytes.Equal(re.hdr2, whole.hdr2))
			}
		}
	}
	// segmentation independence
	sp := zz.Range("split", 0, len(wire)-1) // 0 = byte-at-a-time delivery
	splits := []int{sp}
	if sp == 0 {
		splits = nil
		for i := 1; i < len(wire); i++ {
			splits = append(splits, i)
		}
		zz.Cover("byte-at-a-time", true)
	}
	cut := zzClientRead(append([]byte(nil), wire...), splits, stream, maxBody, second)
	same := (whole.err == nil) == (cut.err == nil) && whole.tooLarge == cut.tooLarge &&
		whole.status == cut.status && bytes.Equal(whole.body, cut.body) && bytes.Equal(whole.xa, cut.xa) && bytes.Equal(whole.hdr, cut.hdr) &&
		(whole.err2 == nil) == (cut.err2 == nil) && whole.status2 == cut.status2 && bytes.Equal(whole.body2, cut.body2)
	zz.Assert("same-result-under-segmentation", same)
}

// ZZ_C03_CLI: client response read path under corruption: every position of every response
// template holds W symbolic bytes; the reader (buffered and streaming, with and without a size
// limit) never panics (every Go run-time check on the way is an implicit assertion). Lenient
// acceptance (e.g. a two-digit status code) is not a C03 violation and is not asserted.
func ZZ_C03_CLI() {
	t := zz.Choose("tmpl", len(zzRespTemplates))
	wire := []byte(zzRespTemplates[t].wire)
	for i := range wire {
		if wire[i] == 'B' {
			wire[i] = 'x'
		}
		if wire[i] == 'V' {
			wire[i] = 'v'
		}
	}
	w := zz.Param("W", 1)
	p := zz.Range("pos", 0, len(wire)-w)
	sym := zz.Bytes("sym", w)
	copy(wire[p:], sym)
	stream := zz.Choose("stream", 2) == 1
	maxBody := []int{0, 2}[zz.Choose("maxbody", 2)]
	v := zzClientRead(wire, nil, stream, maxBody, false)
	zz.Cover("reached-end", true)
	zz.Cover("accepted", v.err == nil)
	zz.Cover("rejected", v.err != nil)
}

// ZZ_C04_POOL: the chunked body writer is pooled; the run-time hands a collected writer back to
// the pool through its finalizer (release). A writer that served one response and went through
// that path must serve the next response like a fresh one: status line and header block first,
// then the chunks, then the terminating chunk.
func ZZ_C04_POOL() {
	b1 := zz.Bytes("body1", 2)
	b2 := zz.Bytes("body2", 2)
	firstWrote := zz.Choose("firstWroteData", 2) == 1
	nc := zz.NewNetConn(nil)
	conn := standard.ZZNewConn(nc)
	var r1 protocol.Response
	r1.Header.SetNoDefaultDate(true)
	w1 := NewChunkedBodyWriter(&r1, conn)
	if firstWrote {
		w1.Write(b1) //nolint:errcheck
	}
	w1.Finalize() //nolint:errcheck
	conn.Flush()  //nolint:errcheck
	first := len(nc.Out)
	// what the run-time does once the writer is unreachable: clear the finalizer, then run it
	runtime.SetFinalizer(w1.(*chunkedBodyWriter), nil)
	w1.(*chunkedBodyWriter).release()
	var r2 protocol.Response
	r2.Header.SetNoDefaultDate(true)
	r2.SetStatusCode(201)
	w2 := NewChunkedBodyWriter(&r2, conn)
	w2.Write(b2)  //nolint:errcheck
	w2.Finalize() //nolint:errcheck
	conn.Flush()  //nolint:errcheck
	out := nc.Out
	zz.Cover("reached-assert", true)
	zz.Cover("writer-reused", w1.(*chunkedBodyWriter) == w2.(*chunkedBodyWriter))
	zz.Assert("first-response-starts-with-a-status-line", bytes.HasPrefix(out, []byte("HTTP/1.1 200 OK\r\n")))
	zz.Assert("first-response-ends-with-the-last-chunk", first >= 5 && string(out[first-5:first]) == "0\r\n\r\n")
	second := out[first:]
	zz.Assert("second-response-starts-with-its-status-line", bytes.HasPrefix(second, []byte("HTTP/1.1 201 Created\r\n")))
	he := bytes.Index(second, []byte("\r\n\r\n"))
	zz.Assert("second-response-has-a-header-block", he > 0)
	if he > 0 {
		want := append(append([]byte("2\r\n"), b2...), "\r\n0\r\n\r\n"...)
		zz.Assert("second-body-is-exactly-its-chunk-and-the-terminator", bytes.Equal(second[he+4:], want))
	}
}
