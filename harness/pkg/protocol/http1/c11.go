//go:build verif

package http1

import (
	"bytes"
	"io"
	"context"

	zz "github.com/cloudwego/hertz/internal/zzverif"
	"github.com/cloudwego/hertz/pkg/app"
	"github.com/cloudwego/hertz/pkg/network/standard"
	"github.com/cloudwego/hertz/pkg/protocol"
	"github.com/cloudwego/hertz/pkg/protocol/http1/req"
)

var zzMethods = []string{"GET", "HEAD", "POST", "PUT", "DELETE", "OPTIONS"}

// ZZ_C11_H1: a request built through the client API (method, path and query bytes, one header
// field, body as bytes / stream of known length / stream of unknown length) is serialised by the
// real req.Write, the bytes are one well-formed header block, and the real hertz server decodes
// them to the same method, path, query, Host, header field and body.
func ZZ_C11_H1() {
	method := zzMethods[zz.Choose("method", len(zzMethods))]
	pb := zz.Bytes("path", zz.Range("lpath", 0, zz.Param("P", 2)))
	for _, c := range pb {
		zz.Assume(c >= 0x20 && c != 0x7f && c != '?' && c != '#') // setter input: no query/fragment delimiters or control bytes
	}
	qk := zz.Bytes("qkey", 1)
	qv := zz.Bytes("qval", zz.Range("lqval", 0, 1))
	hv := zz.Bytes("hval", zz.Range("lhval", 1, zz.Param("H", 2)))
	for _, c := range hv {
		zz.Assume(c > 0x20 && c < 0x7f)
	}
	bodyMode := zz.Choose("bodymode", 5) // 0 none, 1 bytes, 2 stream known length, 3 stream unknown length, 4 LimitedReader of unknown length
	body := zz.Bytes("body", zz.Range("lbody", 1, zz.Param("B", 2)))

	var r protocol.Request
	r.SetMethod(method)
	r.SetRequestURI("http://h/" + string(pb))
	r.URI().QueryArgs().Add(string(qk), string(qv))
	r.Header.Set("X-H", string(hv))
	// an explicit Host header field (virtual host different from the URL's authority) is sent as given
	wantHost := "h"
	if zz.Choose("explicitHost", 2) == 1 {
		wantHost = "vhost.example"
		r.Header.SetHost(wantHost)
	}
	hasBody := method != "GET" && method != "HEAD" && bodyMode != 0
	if hasBody {
		switch bodyMode {
		case 1:
			r.SetBody(body)
		case 2:
			r.SetBodyStream(bytes.NewReader(body), len(body))
		case 3:
			r.SetBodyStream(bytes.NewReader(body), -1)
		case 4:
			r.SetBodyStream(io.LimitReader(bytes.NewReader(append(append([]byte(nil), body...), "tail"...)), int64(len(body))), -1)
		}
	}
	wantPath := append([]byte(nil), r.URI().Path()...)
	out := zz.NewNetConn(nil)
	wc := standard.ZZNewConn(out)
	err := req.Write(&r, wc)
	if err == nil {
		err = wc.Flush()
	}
	zz.Cover("reached-write", true)
	zz.Assert("write-succeeds", err == nil)
	if err != nil {
		return
	}
	wire := append([]byte(nil), out.Out...)
	zz.Observe("wire", wire)

	// server side
	var gotMethod, gotPath, gotQuery, gotHost, gotH, gotBody []byte
	calls := 0
	nArgs := -1
	core := zzNewCore(func(c context.Context, ctx *app.RequestContext) {
		calls++
		if calls != 1 {
			return
		}
		gotMethod = append([]byte(nil), ctx.Method()...)
		gotPath = append([]byte(nil), ctx.Request.URI().Path()...)
		gotQuery = append([]byte(nil), ctx.Request.URI().QueryArgs().Peek(string(qk))...)
		nArgs = ctx.Request.URI().QueryArgs().Len()
		gotHost = append([]byte(nil), ctx.Request.Host()...)
		gotH = append([]byte(nil), ctx.Request.Header.Peek("X-H")...)
		gotBody = append([]byte(nil), ctx.Request.Body()...)
	})
	s := zzNewServer(core)
	s.IdleTimeout = 1
	in := zz.NewNetConn(append(wire, zzSentinel...))
	_ = s.Serve(context.Background(), standard.ZZNewConn(in))
	zz.Cover("reached-assert", true)
	zz.Cover("with-body", hasBody)
	zz.Assert("server-handles-request-and-sentinel", calls == 2)
	if calls < 1 {
		return
	}
	zz.Assert("method", string(gotMethod) == method)
	zz.Assert("path", bytes.Equal(gotPath, wantPath))
	zz.Assert("query-argument", nArgs == 1 && bytes.Equal(gotQuery, qv))
	zz.Assert("host", string(gotHost) == wantHost)
	zz.Assert("header-field", bytes.Equal(gotH, hv))
	if hasBody {
		zz.Assert("body", bytes.Equal(gotBody, body))
	} else {
		zz.Assert("no-body", len(gotBody) == 0)
	}
}

// ZZ_C11_BIG: a streamed request body spanning several 4 KiB copy buffers reaches the server
// intact.
func ZZ_C11_BIG() {
	n := 8192 + zz.Range("extra", 1, 3)
	known := zz.Choose("knownLength", 2) == 1
	body := zzBigBody(n)
	var r protocol.Request
	r.SetMethod("POST")
	r.SetRequestURI("http://h/up")
	if known {
		r.SetBodyStream(bytes.NewReader(body), len(body))
	} else {
		r.SetBodyStream(bytes.NewReader(body), -1)
	}
	out := zz.NewNetConn(nil)
	wc := standard.ZZNewConn(out)
	err := req.Write(&r, wc)
	if err == nil {
		err = wc.Flush()
	}
	zz.Assert("write-succeeds", err == nil)
	if err != nil {
		return
	}
	var got []byte
	calls := 0
	core := zzNewCore(func(c context.Context, ctx *app.RequestContext) {
		calls++
		got = append([]byte(nil), ctx.Request.Body()...)
	})
	s := zzNewServer(core)
	_ = s.Serve(context.Background(), standard.ZZNewConn(zz.NewNetConn(out.Out)))
	zz.Cover("reached-assert", true)
	zz.Assert("handled", calls == 1)
	zz.Assert("big-body-intact", bytes.Equal(got, body))
}

// ZZ_C11_H3: response header fields through the whole client (HostClient.Do over a scripted
// connection), with header-name normalisation on and off: the caller sees the field names as the
// server sent them when normalisation is disabled, in canonical form otherwise, and the values
// (one byte symbolic) unchanged in both cases; also on the second exchange over the reused
// connection and Response object.
func ZZ_C11_H3() {
	disable := zz.Choose("disableNormalizing", 2) == 1
	v := zz.Byte("value")
	zz.Assume(v > ' ' && v < 0x7f)
	d := &zzDialer{}
	d.script = func() (int, byte) { return -1, 0 }
	reply := append([]byte("HTTP/1.1 200 OK\r\nx-request-id: "), v)
	reply = append(reply, "\r\nETag: e\r\nContent-Length: 2\r\n\r\nok"...)
	d.next = reply
	c := NewHostClient(&ClientOptions{Dialer: d, MaxConns: 1, DisableHeaderNamesNormalizing: disable}).(*HostClient)
	c.Addr = "h:80"
	var req protocol.Request
	var resp protocol.Response
	okAll := true
	for i := 0; i < 2; i++ {
		if i == 1 {
			for _, nc := range d.conns {
				if nc.Closed == 0 {
					nc.In = append(nc.In, reply...)
				}
			}
		}
		req.SetRequestURI("http://h/x")
		err := c.Do(&zzCtx{}, &req, &resp)
		if err != nil {
			okAll = false
			break
		}
		var names []byte
		var val []byte
		resp.Header.VisitAll(func(k, vv []byte) {
			names = append(names, k...)
			names = append(names, ';')
			if len(k) == len("x-request-id") && (k[0] == 'x' || k[0] == 'X') {
				val = append([]byte(nil), vv...)
			}
		})
		// (VisitAll also reports the default content type of a response that carried none)
		want := "Content-Length;Content-Type;X-Request-Id;Etag;"
		if disable {
			want = "Content-Length;Content-Type;x-request-id;ETag;"
		}
		if string(names) != want || len(val) != 1 || val[0] != v || string(resp.Body()) != "ok" {
			okAll = false
		}
	}
	zz.Cover("reached-assert", true)
	zz.Cover("connection-reused", len(d.conns) == 1)
	zz.Assert("field-names-and-values-as-documented-on-both-exchanges", okAll)
}
