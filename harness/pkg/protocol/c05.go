//go:build verif

package protocol

import (
	zz "github.com/cloudwego/hertz/internal/zzverif"
)

// strict line reader: every line ends in CRLF, no bare CR or LF anywhere, the block ends with an
// empty line. Returns the number of non-empty lines (start line + header lines).
func zzStrictLines(b []byte) (lines int, ok bool) {
	start := 0
	i := 0
	for i < len(b) {
		c := b[i]
		if c == '\n' {
			return 0, false // LF not preceded by CR
		}
		if c == '\r' {
			if i+1 >= len(b) || b[i+1] != '\n' {
				return 0, false // bare CR
			}
			if i == start {
				// empty line: must be the end of the block
				return lines, i+2 == len(b)
			}
			lines++
			i += 2
			start = i
			continue
		}
		i++
	}
	return 0, false // no terminating empty line
}

// RFC 7230 tchar
var zzTokenChar = func() (t [256]bool) {
	for c := '0'; c <= '9'; c++ {
		t[c] = true
	}
	for c := 'a'; c <= 'z'; c++ {
		t[c] = true
		t[c-'a'+'A'] = true
	}
	for _, c := range []byte("!#$%&'*+-.^_`|~") {
		t[c] = true
	}
	return
}()

// header line shape: name ':' ... with a non-empty name made of token characters only.
func zzLineNamesOK(b []byte) bool {
	// skip start line
	i := 0
	for i+1 < len(b) && !(b[i] == '\r' && b[i+1] == '\n') {
		i++
	}
	i += 2
	for i < len(b) {
		if b[i] == '\r' {
			return true
		}
		j := i
		for j < len(b) && b[j] != ':' && b[j] != '\r' {
			if !zzTokenChar[b[j]] {
				return false
			}
			j++
		}
		if j == i || j >= len(b) || b[j] != ':' {
			return false
		}
		for j+1 < len(b) && !(b[j] == '\r' && b[j+1] == '\n') {
			j++
		}
		i = j + 2
	}
	return true
}

// ZZ_C05_H1: choke-point lemma for appendHeaderLine: output is empty or exactly one line
// key ": " v' CRLF with no CR/LF inside and |v'| = |value|.
func ZZ_C05_H1() {
	kn := zz.Range("kn", 0, zz.Param("K", 3))
	vn := zz.Range("vn", 0, zz.Param("V", 3))
	key := zz.Bytes("key", kn)
	val := zz.Bytes("val", vn)
	out := appendHeaderLine(nil, key, val)
	zz.Cover("reached-assert", true)
	zz.Cover("line-emitted", len(out) > 0)
	if len(out) == 0 {
		return
	}
	zz.Assert("length", len(out) == kn+2+vn+2)
	if len(out) != kn+2+vn+2 {
		return
	}
	clean := true
	for i := 0; i < len(out)-2; i++ {
		if out[i] == '\r' || out[i] == '\n' {
			clean = false
		}
	}
	zz.Assert("no-cr-lf-inside-line", clean)
	zz.Assert("ends-with-crlf", out[len(out)-2] == '\r' && out[len(out)-1] == '\n')
	zz.Assert("separator", out[kn] == ':' && out[kn+1] == ' ')
}

// ZZ_C05_REQ: request-header entry points. One field is set with symbolic bytes, the header is
// serialised and read back by the strict line reader; the number of lines may not exceed what
// the same call produces with a harmless value, and every line must have a token name.
func ZZ_C05_REQ() {
	ep := zz.Choose("entry", 15)
	vn := zz.Range("vn", 0, zz.Param("V", 3))
	val := zz.Bytes("val", vn)
	var key []byte
	if ep <= 2 {
		key = zz.Bytes("key", zz.Range("kn", 1, zz.Param("K", 2)))
	}
	set := func(h *RequestHeader, key, val []byte) {
		switch ep {
		case 0:
			h.Set(string(key), string(val))
		case 1:
			h.Add(string(key), string(val))
		case 2:
			h.SetCookie(string(key), string(val))
		case 3:
			h.SetContentTypeBytes(val)
		case 4:
			h.SetUserAgentBytes(val)
		case 5:
			h.SetHostBytes(val)
		case 6:
			h.Set("Cookie", string(val))
		case 7:
			h.Set("Trailer", string(val))
		case 8:
			h.SetBytesKV([]byte("X-A"), val)
		case 9:
			h.SetCanonical([]byte("X-A"), val)
		case 10:
			h.SetMultipartFormBoundary(string(val))
		case 11:
			h.SetArgBytes([]byte("X-A"), val, false)
		case 12:
			h.AddArgBytes([]byte("X-A"), val, false)
		case 13:
			h.SetHost(string(val))
		case 14:
			h.SetContentLengthBytes(val)
		}
	}
	var base RequestHeader
	base.SetRequestURI("/")
	bk := []byte("Xa")
	bv := []byte("x")
	if ep == 7 {
		bv = []byte("Foo")
	}
	set(&base, bk, bv)
	baseLines, baseOK := zzStrictLines(base.Header())
	zz.Assume(baseOK)

	var h RequestHeader
	h.SetRequestURI("/")
	set(&h, key, val)
	out := h.Header()
	zz.Observe("out", out)
	lines, ok := zzStrictLines(out)
	zz.Cover("reached-assert", true)
	zz.Assert("well-formed-lines", ok)
	if ok {
		zz.Assert("no-extra-line", lines <= baseLines)
		zz.Assert("line-names-are-tokens", zzLineNamesOK(out))
	}
}

// ZZ_C05_RESP: response-header entry points (incl. Set-Cookie through the Cookie type).
func ZZ_C05_RESP() {
	ep := zz.Choose("entry", 17)
	vn := zz.Range("vn", 0, zz.Param("V", 3))
	val := zz.Bytes("val", vn)
	var key []byte
	if ep <= 1 {
		key = zz.Bytes("key", zz.Range("kn", 1, zz.Param("K", 2)))
	}
	set := func(h *ResponseHeader, key, val []byte) {
		switch ep {
		case 0:
			h.Set(string(key), string(val))
		case 1:
			h.Add(string(key), string(val))
		case 2:
			h.SetContentTypeBytes(val)
		case 3:
			h.SetServerBytes(val)
		case 4:
			h.SetContentEncodingBytes(val)
		case 5:
			h.Set("Set-Cookie", string(val))
		case 6:
			var c Cookie
			c.SetKey("k")
			c.SetValueBytes(val)
			h.SetCookie(&c)
		case 7:
			var c Cookie
			c.SetKeyBytes(val)
			c.SetValue("v")
			h.SetCookie(&c)
		case 8:
			var c Cookie
			c.SetKey("k")
			c.SetValue("v")
			c.SetDomain(string(val))
			h.SetCookie(&c)
		case 9:
			var c Cookie
			c.SetKey("k")
			c.SetValue("v")
			c.SetPathBytes(val)
			h.SetCookie(&c)
		case 10:
			h.Set("Trailer", string(val))
		case 11:
			h.SetCanonical([]byte("Location"), val)
		case 12:
			h.AddArgBytes([]byte("X-A"), val, false)
		case 13:
			h.SetBytesV("X-A", val)
		case 14:
			h.SetContentEncoding(string(val))
		case 15:
			h.SetContentType(string(val))
		case 16:
			h.SetContentLengthBytes(val)
		}
	}
	var base ResponseHeader
	base.SetNoDefaultDate(true)
	bv := []byte("x")
	if ep == 10 {
		bv = []byte("Foo")
	}
	set(&base, []byte("Xa"), bv)
	baseLines, baseOK := zzStrictLines(base.Header())
	zz.Assume(baseOK)

	var h ResponseHeader
	h.SetNoDefaultDate(true)
	set(&h, key, val)
	out := h.Header()
	zz.Observe("out", out)
	lines, ok := zzStrictLines(out)
	zz.Cover("reached-assert", true)
	zz.Assert("well-formed-lines", ok)
	if ok {
		zz.Assert("no-extra-line", lines <= baseLines)
		zz.Assert("line-names-are-tokens", zzLineNamesOK(out))
	}
}

// ZZ_C05_TRAILER: trailer fields.
func ZZ_C05_TRAILER() {
	kn := zz.Range("kn", 1, zz.Param("K", 2))
	vn := zz.Range("vn", 0, zz.Param("V", 3))
	key := zz.Bytes("key", kn)
	val := zz.Bytes("val", vn)
	var t Trailer
	err := t.Set(string(key), string(val))
	out := t.Header()
	lines, ok := zzStrictLines(out)
	zz.Cover("reached-assert", true)
	zz.Cover("accepted", err == nil)
	zz.Assert("well-formed-lines", ok)
	if ok {
		zz.Assert("at-most-one-line", lines <= 1)
	}
}

// ZZ_C05_GEN: every exported Set*/Add* method of RequestHeader, ResponseHeader, Cookie and
// Trailer that takes strings or byte slices - the dispatch table (zzGen*) is generated from the
// method sets in /repo's current source on every run, so nothing has to be listed by hand. One
// text parameter is symbolic, the others hold harmless values; the serialised block must consist
// of well-formed lines with token names, and have no more lines than the same call with a
// harmless value.
func ZZ_C05_GEN() {
	kind := zz.Choose("type", 4)
	var entries []zzGenEntry
	switch kind {
	case 0:
		entries = zzGenRequestHeader
	case 1:
		entries = zzGenResponseHeader
	case 2:
		entries = zzGenCookie
	case 3:
		entries = zzGenTrailer
	}
	ep := zz.Choose("entry", len(entries))
	texts := entries[ep].texts
	pos := zz.Choose("symbolicParam", texts)
	val := zz.Bytes("val", zz.Range("vn", 0, zz.Param("V", 3)))
	if texts >= 2 && pos == 0 {
		zz.Assume(len(val) > 0) // a field name is not empty (as in the hand-written harnesses)
	}
	mk := func(sym []byte) [][]byte {
		a := [][]byte{[]byte("Xa"), []byte("x"), []byte("y")}[:texts]
		if texts == 1 {
			a = [][]byte{[]byte("x")}
		}
		if sym != nil {
			a[pos] = sym
		}
		return a
	}
	ser := func(args [][]byte) []byte {
		switch kind {
		case 0:
			var h RequestHeader
			h.SetRequestURI("/")
			zzGenRequestHeaderCall(&h, ep, args)
			return h.Header()
		case 1:
			var h ResponseHeader
			h.SetNoDefaultDate(true)
			zzGenResponseHeaderCall(&h, ep, args)
			return h.Header()
		case 2:
			var c Cookie
			c.SetKey("k")
			c.SetValue("v")
			zzGenCookieCall(&c, ep, args)
			var h ResponseHeader
			h.SetNoDefaultDate(true)
			h.SetCookie(&c)
			return h.Header()
		}
		var t Trailer
		zzGenTrailerCall(&t, ep, args)
		// (a trailer section has no start line: one is prepended for the line-name reader)
		return append([]byte("T\r\n"), t.Header()...)
	}
	baseLines, baseOK := zzStrictLines(ser(mk(nil)))
	zz.Assume(baseOK)
	out := ser(mk(val))
	zz.Observe("out", out)
	lines, ok := zzStrictLines(out)
	zz.Cover("reached-assert", true)
	zz.Assert("well-formed-lines", ok)
	if ok {
		if !entries[ep].list {
			zz.Assert("no-extra-line", lines <= baseLines)
		}
		zz.Assert("line-names-are-tokens", zzLineNamesOK(out))
	}
}
