//go:build verif

package protocol

import (
	"github.com/cloudwego/hertz/internal/bytesconv"
	zz "github.com/cloudwego/hertz/internal/zzverif"
)

// C03, family 1: exported parsers of untrusted data on fully symbolic input. The property
// checked is "no run-time panic"; every Go run-time check is an implicit assertion of the
// executor, so the harness bodies only have to drive the parser and its getters.

// ZZ_C03_URI: URI.Parse(host, uri) for host in {nil, "h"} and every uri of <= N bytes.
func ZZ_C03_URI() {
	n := zz.Range("n", 0, zz.Param("N", 4))
	uri := zz.Bytes("uri", n)
	var host []byte
	if zz.Choose("host", 2) == 1 {
		host = []byte("h")
	}
	var u URI
	u.Parse(host, uri)
	p := u.Path()
	_ = u.QueryString()
	_ = u.Host()
	_ = u.Scheme()
	_ = u.Hash()
	_ = u.LastPathSegment()
	_ = u.RequestURI()
	_ = u.FullURI()
	zz.Cover("reached-end", true)
	zz.Assert("path-starts-with-slash", len(p) > 0 && p[0] == '/')
}

// ZZ_C03_Args: query-string parser.
func ZZ_C03_Args() {
	n := zz.Range("n", 0, zz.Param("N", 5))
	b := zz.Bytes("q", n)
	var a Args
	a.ParseBytes(b)
	_ = a.Peek("a")
	_ = a.Len()
	_ = a.QueryString()
	zz.Cover("reached-end", true)
}

// ZZ_C03_Cookie: response-cookie parser, fully symbolic text.
func ZZ_C03_Cookie() {
	n := zz.Range("n", 0, zz.Param("N", 5))
	b := zz.Bytes("c", n)
	var c Cookie
	_ = c.ParseBytes(b)
	_ = c.Key()
	_ = c.Value()
	zz.Cover("reached-end", true)
}

// ZZ_C03_CookieAttr: "k=v; " + attribute name of L symbolic bytes + "=" + value of <= 2 bytes.
// This shape reaches the attribute switch (max-age / expires / domain / path / samesite).
func ZZ_C03_CookieAttr() {
	l := zz.Range("l", 1, zz.Param("L", 8))
	name := zz.Bytes("name", l)
	for _, ch := range name {
		// keep the attribute name one scanner token (other shapes are ZZ_C03_Cookie's job)
		zz.Assume(ch != ';' && ch != '=' && ch != ' ')
	}
	vn := zz.Range("vn", 0, zz.Param("V", 2))
	val := zz.Bytes("val", vn)
	b := append([]byte("k=v; "), name...)
	b = append(b, '=')
	b = append(b, val...)
	var c Cookie
	err := c.ParseBytes(b)
	_ = c.Key()
	_ = c.MaxAge()
	_ = c.SameSite()
	zz.Cover("reached-end", true)
	zz.Cover("parsed-ok", err == nil)
}

// ZZ_C03_ReqCookies: request Cookie header parser.
func ZZ_C03_ReqCookies() {
	n := zz.Range("n", 0, zz.Param("N", 5))
	b := zz.Bytes("c", n)
	kvs := parseRequestCookies(nil, b)
	_ = len(kvs)
	zz.Cover("reached-end", true)
}

// ZZ_C03_Trailers: "Trailer" header value parser (names of trailer fields announced by a peer).
func ZZ_C03_Trailers() {
	n := zz.Range("n", 0, zz.Param("N", 4))
	b := zz.Bytes("t", n)
	var t Trailer
	_ = t.SetTrailers(b)
	_ = t.Header()
	zz.Cover("reached-end", true)
}

// ZZ_C03_Boundary: multipart boundary extraction from a peer-supplied Content-Type.
func ZZ_C03_Boundary() {
	n := zz.Range("n", 0, zz.Param("N", 5))
	b := zz.Bytes("ct", n)
	var h RequestHeader
	// the symbolic bytes follow either the media type or the "boundary=" parameter name, so that
	// the value handling (quotes, following parameters) is reached within the same bound
	prefix := []string{"multipart/form-data; ", "multipart/form-data; boundary=", "multipart/form-data;a=b; boundary="}[zz.Choose("shape", 3)]
	h.SetContentTypeBytes(append([]byte(prefix), b...))
	r := h.MultipartFormBoundary()
	zz.Cover("reached-end", true)
	zz.Cover("boundary-found", len(r) > 0)
}

// ZZ_C03_ParseUint: decimal parser used for Content-Length, max-age, ranges.
func ZZ_C03_ParseUint() {
	n := zz.Range("n", 0, zz.Param("N", 6))
	b := zz.Bytes("d", n)
	v, err := bytesconv.ParseUint(b)
	zz.Cover("reached-end", true)
	zz.Cover("parsed", err == nil)
	if err == nil {
		zz.Assert("non-negative", v >= 0)
	}
}
