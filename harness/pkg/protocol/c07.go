//go:build verif

package protocol

import (
	zz "github.com/cloudwego/hertz/internal/zzverif"
)

// ---- reference: percent-decode once (invalid escape -> literal '%'; '%' with fewer than
// 3 bytes left copies the tail verbatim) ----

func zzHex(c byte) int {
	switch {
	case c >= '0' && c <= '9':
		return int(c - '0')
	case c >= 'a' && c <= 'f':
		return int(c-'a') + 10
	case c >= 'A' && c <= 'F':
		return int(c-'A') + 10
	}
	return -1
}

func zzRefDecode(src []byte) []byte {
	out := make([]byte, 0, len(src))
	for i := 0; i < len(src); i++ {
		c := src[i]
		if c != '%' {
			out = append(out, c)
			continue
		}
		if i+2 >= len(src) {
			out = append(out, src[i:]...)
			return out
		}
		h1, h2 := zzHex(src[i+1]), zzHex(src[i+2])
		if h1 < 0 || h2 < 0 {
			out = append(out, '%')
			continue
		}
		out = append(out, byte(h1<<4|h2))
		i += 2
	}
	return out
}

// ---- reference: resolve segments left to right with a stack ----
// p is the decoded path, already starting with '/'.
func zzRefResolve(p []byte) []byte {
	// split on '/'
	var segs [][]byte
	start := 1
	for i := 1; i <= len(p); i++ {
		if i == len(p) || p[i] == '/' {
			segs = append(segs, p[start:i])
			start = i + 1
		}
	}
	var stack [][]byte
	trailing := false
	for k, s := range segs {
		last := k == len(segs)-1
		isDot := len(s) == 1 && s[0] == '.'
		isDotDot := len(s) == 2 && s[0] == '.' && s[1] == '.'
		switch {
		case isDotDot:
			if len(stack) > 0 {
				stack = stack[:len(stack)-1]
			}
			if last {
				trailing = true
			}
		case !last && (len(s) == 0 || isDot):
			// dropped
		default:
			if last {
				// kept as is (may be empty or ".")
				stack = append(stack, s)
			} else {
				stack = append(stack, s)
			}
		}
	}
	out := []byte{}
	for _, s := range stack {
		out = append(out, '/')
		out = append(out, s...)
	}
	if trailing {
		out = append(out, '/')
	}
	if len(out) == 0 {
		out = append(out, '/')
	}
	return out
}

func zzEq(a, b []byte) bool {
	if len(a) != len(b) {
		return false
	}
	for i := range a {
		if a[i] != b[i] {
			return false
		}
	}
	return true
}

// containment predicate on a normalised path.
func zzContained(p []byte) (startsSlash, noDotDot, noInnerEmptyOrDot bool) {
	startsSlash = len(p) > 0 && p[0] == '/'
	noDotDot, noInnerEmptyOrDot = true, true
	if !startsSlash {
		return
	}
	start := 1
	for i := 1; i <= len(p); i++ {
		if i == len(p) || p[i] == '/' {
			seg := p[start:i]
			last := i == len(p)
			if len(seg) == 2 && seg[0] == '.' && seg[1] == '.' {
				noDotDot = false
			}
			if !last && (len(seg) == 0 || (len(seg) == 1 && seg[0] == '.')) {
				noInnerEmptyOrDot = false
			}
			start = i + 1
		}
	}
	return
}

// ZZ_C07_H1: decodeArgAppendNoPlus == reference single-pass percent-decoder, all bytes.
func ZZ_C07_H1() {
	n := zz.Range("n", 0, zz.Param("N", 6))
	src := zz.Bytes("src", n)
	in := append([]byte(nil), src...)
	got := decodeArgAppendNoPlus(nil, in)
	want := zzRefDecode(src)
	zz.Observe("got", got)
	zz.Cover("decoded-escape", len(got)+2 <= len(src))
	zz.Cover("reached-assert", true)
	zz.Assert("decode-equals-reference", zzEq(got, want))
}

// ZZ_C07_H2: normalizePath on %-free input: containment + equals the stack reference.
func ZZ_C07_H2() {
	n := zz.Range("n", 0, zz.Param("N", 7))
	src := zz.Bytes("src", n)
	for _, c := range src {
		zz.Assume(c != '%')
	}
	in := append([]byte(nil), src...)
	got := normalizePath(nil, in)
	zz.Observe("got", got)
	p := append([]byte(nil), src...)
	if len(p) == 0 || p[0] != '/' {
		p = append([]byte{'/'}, p...)
	}
	want := zzRefResolve(p)
	a, b, c := zzContained(got)
	zz.Cover("reached-assert", true)
	zz.Cover("popped-segment", len(got)+4 <= len(src))
	zz.Assert("starts-with-slash", a)
	zz.Assert("no-dotdot-segment", b)
	zz.Assert("no-inner-empty-or-dot-segment", c)
	zz.Assert("equals-stack-reference", zzEq(got, want))
}

// ZZ_C07_H3: composition with percent-decoding, and through URI.Parse.
func ZZ_C07_H3() {
	n := zz.Range("n", 0, zz.Param("N", 5))
	src := zz.Bytes("src", n)
	in := append([]byte(nil), src...)
	got := normalizePath(nil, in)
	zz.Observe("got", got)
	dec := zzRefDecode(src)
	if len(src) == 0 || src[0] != '/' {
		dec = append([]byte{'/'}, dec...)
	}
	want := zzRefResolve(dec)
	a, b, c := zzContained(got)
	zz.Cover("reached-assert", true)
	zz.Assert("starts-with-slash", a)
	zz.Assert("no-dotdot-segment", b)
	zz.Assert("no-inner-empty-or-dot-segment", c)
	zz.Assert("equals-decode-then-stack-reference", zzEq(got, want))
}
