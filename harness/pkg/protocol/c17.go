//go:build verif

package protocol

import (
	"bytes"

	"github.com/cloudwego/hertz/internal/bytesconv"
	zz "github.com/cloudwego/hertz/internal/zzverif"
)

// ZZ_C17_H1: decode(encode(x)) == x for the query-argument codec, every byte string.
func ZZ_C17_H1() {
	n := zz.Range("n", 0, zz.Param("N", 4))
	x := zz.Bytes("x", n)
	enc := bytesconv.AppendQuotedArg(nil, x)
	dec := decodeArgAppend(nil, enc)
	zz.Observe("enc", enc)
	zz.Cover("reached-assert", true)
	zz.Cover("escaped-something", len(enc) > len(x))
	zz.Assert("arg-roundtrip", bytes.Equal(dec, x))
}

// ZZ_C17_H1P: same for the path codec.
func ZZ_C17_H1P() {
	n := zz.Range("n", 0, zz.Param("N", 4))
	x := zz.Bytes("x", n)
	enc := bytesconv.AppendQuotedPath(nil, x)
	dec := decodeArgAppendNoPlus(nil, enc)
	zz.Cover("reached-assert", true)
	zz.Assert("path-roundtrip", bytes.Equal(dec, x))
}

// reference RFC 3986 percent-decoder with '+' -> space; ok=false when an escape is malformed
// (this is net/url.QueryUnescape's acceptance rule).
func zzRefUnescape(s []byte) (out []byte, ok bool) {
	for i := 0; i < len(s); i++ {
		c := s[i]
		switch c {
		case '%':
			if i+2 >= len(s)+0 && !(i+2 < len(s)) {
				return nil, false
			}
			h1, h2 := zzHex(s[i+1]), zzHex(s[i+2])
			if h1 < 0 || h2 < 0 {
				return nil, false
			}
			out = append(out, byte(h1<<4|h2))
			i += 2
		case '+':
			out = append(out, ' ')
		default:
			out = append(out, c)
		}
	}
	return out, true
}

// ZZ_C17_H1D: on every string the reference decoder (net/url's rule) accepts, decodeArgAppend
// returns the same bytes.
func ZZ_C17_H1D() {
	n := zz.Range("n", 0, zz.Param("N", 5))
	s := zz.Bytes("s", n)
	want, ok := zzRefUnescape(s)
	zz.Assume(ok)
	got := decodeArgAppend(nil, append([]byte(nil), s...))
	zz.Cover("reached-assert", true)
	zz.Cover("has-escape", len(want)+2 <= len(s))
	zz.Assert("agrees-with-url-unescape", bytes.Equal(got, want))
}

// ZZ_C17_H2: ordered argument list: Parse(Print(list)) == list (entries with empty key and
// empty value excepted), and Print is a fixed point of Parse∘Print.
func ZZ_C17_H2() {
	m := zz.Param("M", 2)
	k1 := zz.Bytes("k1", zz.Range("lk1", 0, m))
	v1 := zz.Bytes("v1", zz.Range("lv1", 0, m))
	k2 := zz.Bytes("k2", zz.Range("lk2", 0, m))
	v2 := zz.Bytes("v2", zz.Range("lv2", 0, m))
	var a Args
	a.Add(string(k1), string(v1))
	a.Add(string(k2), string(v2))
	qs := append([]byte(nil), a.QueryString()...)
	var b Args
	b.ParseBytes(append([]byte(nil), qs...))
	// expected list: drop entries with empty key and empty value
	type kv struct{ k, v []byte }
	var want []kv
	if len(k1) > 0 || len(v1) > 0 {
		want = append(want, kv{k1, v1})
	}
	if len(k2) > 0 || len(v2) > 0 {
		want = append(want, kv{k2, v2})
	}
	zz.Cover("reached-assert", true)
	zz.Cover("two-entries", len(want) == 2)
	zz.Assert("same-length", b.Len() == len(want))
	if b.Len() == len(want) {
		i := 0
		same := true
		b.VisitAll(func(k, v []byte) {
			if !bytes.Equal(k, want[i].k) || !bytes.Equal(v, want[i].v) {
				same = false
			}
			i++
		})
		zz.Assert("same-ordered-pairs", same)
	}
	if len(want) == 2 {
		// (the property exempts entries with empty key and value, so the fixed point is only
		// demanded when nothing was dropped)
		qs2 := b.QueryString()
		zz.Assert("print-parse-print-fixed-point", bytes.Equal(qs2, qs))
	}
}

// ZZ_C17_H4: response cookie: ParseBytes(AppendBytes(c)) returns the same record.
func ZZ_C17_H4() {
	m := zz.Param("M", 2)
	key := zz.Bytes("key", zz.Range("lkey", 1, m))
	val := zz.Bytes("val", zz.Range("lval", 0, m))
	dom := zz.Bytes("dom", zz.Range("ldom", 0, m))
	pth := zz.Bytes("path", zz.Range("lpath", 0, m))
	for _, b := range [][]byte{key, val, dom, pth} {
		for _, ch := range b {
			// cookie-safe octets (RFC 6265 cookie-octet, minus '=' in names handled below)
			zz.Assume(ch > 0x20 && ch < 0x7f && ch != ';' && ch != '"' && ch != ',' && ch != '\\')
		}
	}
	for _, ch := range key {
		zz.Assume(ch != '=')
	}
	// max-age: decimal printing/parsing of a fully symbolic 64-bit value is a division chain the
	// solver does not finish in the quick tier; a representative set is enumerated instead.
	maxAge := []int{0, 1, 59, 86400, 2147483647}[zz.Choose("maxAge", 5)]
	// the value may end in white space that is not the ASCII space (only 0x20 is trimmed by the
	// parser); crossed with the other attributes only for the first max-age value
	if maxAge == 0 {
		val = append(val, []string{"", "\t", "\u00a0", "\u3000"}[zz.Choose("valueSuffix", 4)]...)
	}
	var c Cookie
	c.SetKeyBytes(key)
	c.SetValueBytes(val)
	c.SetDomain(string(dom))
	c.SetPathBytes(pth)
	c.SetMaxAge(maxAge)
	c.SetHTTPOnly(zz.Bool("httpOnly"))
	sec := zz.Bool("secure")
	c.SetPartitioned(zz.Bool("partitioned"))
	ss := CookieSameSite(zz.Range("sameSite", 0, 4))
	// both setter orders: SetSameSite(None) turns Secure on, a later SetSecure(false) clears it
	if zz.Choose("secureSetLast", 2) == 1 {
		c.SetSameSite(ss)
		c.SetSecure(sec)
	} else {
		c.SetSecure(sec)
		c.SetSameSite(ss)
	}
	wantSecure := c.Secure()
	wantHTTPOnly := c.HTTPOnly()
	wantPart := c.Partitioned()
	s := append([]byte(nil), c.Cookie()...)
	var d Cookie
	err := d.ParseBytes(s)
	zz.Cover("reached-assert", true)
	zz.Assert("parses", err == nil)
	if err != nil {
		return
	}
	// the record is what the Cookie's own getters report (SetPath normalises the path)
	zz.Assert("key", bytes.Equal(d.Key(), c.Key()))
	zz.Assert("value", bytes.Equal(d.Value(), c.Value()))
	zz.Assert("domain", bytes.Equal(d.Domain(), c.Domain()))
	zz.Assert("path", bytes.Equal(d.Path(), c.Path()))
	zz.Assert("max-age", d.MaxAge() == c.MaxAge())
	zz.Assert("key-is-input", bytes.Equal(c.Key(), key))
	zz.Assert("value-is-input", bytes.Equal(c.Value(), val))
	zz.Assert("http-only", d.HTTPOnly() == wantHTTPOnly)
	zz.Assert("secure", d.Secure() == wantSecure)
	zz.Assert("partitioned", d.Partitioned() == wantPart)
	zz.Assert("same-site", d.SameSite() == c.SameSite())
}

// ZZ_C17_H3: URI assembled through the setters: Parse(FullURI()) yields the same scheme, host,
// path, query and fragment, and FullURI of the parsed URI is identical (fixed point).
// Stated preconditions (inputs outside them are not URIs the setters can round-trip by design):
// host bytes from [a-z0-9.-] plus ':' (no authority delimiters, already lower-case); query and
// fragment bytes are not control characters (FullURI emits them verbatim and the parser refuses
// control characters); the query contains no '#'. The path ranges over ALL byte values.
func ZZ_C17_H3() {
	m := zz.Param("M", 2)
	host := zz.Bytes("host", zz.Range("lhost", 1, m))
	path := zz.Bytes("path", zz.Range("lpath", 0, zz.Param("P", 3)))
	query := zz.Bytes("query", zz.Range("lquery", 0, m))
	hash := zz.Bytes("hash", zz.Range("lhash", 0, m))
	for _, c := range host {
		zz.Assume((c >= 'a' && c <= 'z') || (c >= 'A' && c <= 'Z') || (c >= '0' && c <= '9') || c == '.' || c == '-' || c == ':')
	}
	for _, c := range query {
		zz.Assume(c >= 0x20 && c != 0x7f && c != '#')
	}
	for _, c := range hash {
		zz.Assume(c >= 0x20 && c != 0x7f)
	}
	https := zz.Bool("https")
	var u URI
	if https {
		u.SetScheme("https")
	} else {
		u.SetScheme("http")
	}
	u.SetHostBytes(host)
	u.SetPathBytes(path)
	u.SetQueryStringBytes(query)
	u.SetHashBytes(hash)
	full := append([]byte(nil), u.FullURI()...)
	zz.Observe("full", full)
	var v URI
	v.Parse(nil, append([]byte(nil), full...))
	zz.Cover("reached-assert", true)
	zz.Cover("has-query-and-hash", len(query) > 0 && len(hash) > 0)
	zz.Assert("scheme", bytes.Equal(v.Scheme(), u.Scheme()))
	zz.Assert("host", bytes.Equal(v.Host(), u.Host()))
	zz.Assert("path", bytes.Equal(v.Path(), u.Path()))
	zz.Assert("query", bytes.Equal(v.QueryString(), u.QueryString()))
	zz.Assert("fragment", bytes.Equal(v.Hash(), u.Hash()))
	zz.Assert("full-uri-fixed-point", bytes.Equal(v.FullURI(), full))
}

// ZZ_C17_H5: agreement with net/url's query rule on symbolic query text, parsed into an Args
// object that already served an earlier query (so recycled key/value buffers are in play):
// on every text net/url.ParseQuery accepts (well-formed escapes, no ';'), the ordered list of
// pairs equals the reference list (entries with empty key and empty value excepted), value-less
// keys included, and Peek agrees with VisitAll.
func ZZ_C17_H5() {
	n := zz.Range("n", 0, zz.Param("N", 5))
	q := zz.Bytes("q", n)
	type kv struct{ k, v []byte }
	var want []kv
	// reference: split on '&', cut at the first '=', unescape both halves
	start := 0
	for i := 0; i <= len(q); i++ {
		if i < len(q) && q[i] != '&' {
			zz.Assume(q[i] != ';')
			continue
		}
		seg := q[start:i]
		start = i + 1
		if len(seg) == 0 {
			continue
		}
		eq := -1
		for j, c := range seg {
			if c == '=' {
				eq = j
				break
			}
		}
		var k, v []byte
		var ok1, ok2 bool
		if eq < 0 {
			k, ok1 = zzRefUnescape(seg)
			ok2 = true
		} else {
			k, ok1 = zzRefUnescape(seg[:eq])
			v, ok2 = zzRefUnescape(seg[eq+1:])
		}
		zz.Assume(ok1 && ok2)
		if len(k) > 0 || len(v) > 0 {
			want = append(want, kv{k, v})
		}
	}
	var a Args
	if zz.Choose("reused", 2) == 1 {
		a.ParseBytes([]byte("user=alice&k=v&z=w&y"))
	}
	a.ParseBytes(append([]byte(nil), q...))
	zz.Cover("reached-assert", true)
	zz.Cover("two-entries", len(want) >= 2)
	zz.Assert("same-length", a.Len() == len(want))
	if a.Len() != len(want) {
		return
	}
	i := 0
	same := true
	a.VisitAll(func(k, v []byte) {
		if !bytes.Equal(k, want[i].k) || !bytes.Equal(v, want[i].v) {
			same = false
		}
		i++
	})
	zz.Assert("same-ordered-pairs-as-net-url-rule", same)
	if len(want) > 0 {
		// Peek returns the value of the first entry with that key
		first := want[0]
		zz.Assert("peek-agrees", bytes.Equal(a.Peek(string(first.k)), first.v))
	}
}

var zzPathAlpha = func() (t [256]bool) {
	for _, c := range []byte("/%25a.") {
		t[c] = true
	}
	return
}()

// ZZ_C17_H4P: the cookie path on its own, long enough for escapes of escapes: for every path
// of <= PL bytes over {/ % 2 5 a .}, ParseBytes(AppendBytes(c)) returns the path the cookie
// reports (the setter decodes and normalises once; the parser must not do it again), and the
// string form is a fixed point.
func ZZ_C17_H4P() {
	pth := zz.Bytes("path", zz.Range("lpath", 0, zz.Param("PL", 5)))
	for _, ch := range pth {
		zz.Assume(zzPathAlpha[ch])
	}
	var c Cookie
	c.SetKey("k")
	c.SetValue("v")
	c.SetPathBytes(pth)
	s := append([]byte(nil), c.Cookie()...)
	var d Cookie
	err := d.ParseBytes(s)
	zz.Cover("reached-assert", true)
	zz.Cover("escape-survives-the-setter", bytes.IndexByte(c.Path(), '%') >= 0)
	zz.Assert("parses", err == nil)
	if err != nil {
		return
	}
	zz.Assert("path", bytes.Equal(d.Path(), c.Path()))
	zz.Assert("string-form-is-a-fixed-point", bytes.Equal(d.Cookie(), s))
}
