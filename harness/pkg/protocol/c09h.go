//go:build verif

package protocol

import (
	zz "github.com/cloudwego/hertz/internal/zzverif"
)

// ZZ_C09_H3: field-level non-interference of Reset. Every scalar, string and byte-slice leaf
// reachable from the object (including unexported fields, found by type) is overwritten with an
// arbitrary value; after Reset the object must be in the state of a freshly allocated one, up to
// the listed scratch fields. A field added later without a reset line is havoc'ed automatically.
func ZZ_C09_H3() {
	kind := zz.Choose("kind", 8)
	zz.Cover("reached-assert", true)
	switch kind {
	case 0:
		var x, fresh URI
		zz.Havoc("uri", &x)
		x.Reset()
		fresh.Reset()
		zz.Assert("uri-reset-equals-fresh", zz.SameState(&x, &fresh, zz.IgnoreURI))
	case 1:
		var x, fresh Args
		zz.Havoc("args", &x)
		x.Reset()
		fresh.Reset()
		zz.Assert("args-reset-equals-fresh", zz.SameState(&x, &fresh, zz.IgnoreArgs))
	case 2:
		var x, fresh Cookie
		zz.Havoc("cookie", &x)
		x.Reset()
		fresh.Reset()
		zz.Assert("cookie-reset-equals-fresh", zz.SameState(&x, &fresh, zz.IgnoreCookie))
	case 3:
		var x, fresh Trailer
		zz.Havoc("trailer", &x)
		x.Reset()
		fresh.Reset()
		zz.Assert("trailer-reset-equals-fresh", zz.SameState(&x, &fresh, zz.IgnoreTrailer))
	case 4:
		var x, fresh RequestHeader
		x.Trailer() // allocate the lazily created parts so that they are havoc'ed too
		zz.Havoc("reqheader", &x)
		x.Reset()
		fresh.Reset()
		zz.Assert("request-header-reset-equals-fresh", zz.SameState(&x, &fresh, zz.IgnoreRequestHeader))
	case 5:
		var x, fresh ResponseHeader
		x.Trailer()
		zz.Havoc("respheader", &x)
		x.Reset()
		fresh.Reset()
		zz.Assert("response-header-reset-equals-fresh", zz.SameState(&x, &fresh, zz.IgnoreResponseHeader))
	case 6:
		var x, fresh Request
		x.Header.Trailer()
		x.URI()
		x.PostArgs()
		x.BodyBuffer()
		zz.Havoc("request", &x)
		x.Reset()
		fresh.Reset()
		zz.Assert("request-reset-equals-fresh", zz.SameState(&x, &fresh, zz.IgnoreRequest))
	case 7:
		var x, fresh Response
		x.Header.Trailer()
		x.BodyBuffer()
		zz.Havoc("response", &x)
		x.Reset()
		fresh.Reset()
		zz.Assert("response-reset-equals-fresh", zz.SameState(&x, &fresh, zz.IgnoreResponse))
	}
}
