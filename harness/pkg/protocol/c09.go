//go:build verif

package protocol

import (
	"bytes"
	"time"

	zz "github.com/cloudwego/hertz/internal/zzverif"
)

// dumps of the observable state of stand-alone pooled values; every dump also exercises slot
// reuse by adding an entry and serialising.

func zzDumpURI(u *URI) []byte {
	var b []byte
	for _, p := range [][]byte{u.Scheme(), u.Host(), u.Path(), u.PathOriginal(), u.QueryString(), u.Hash(), u.Username(), u.Password()} {
		b = append(b, p...)
		b = append(b, '|')
	}
	u.QueryArgs().Add("n", "v")
	b = append(b, u.QueryArgs().QueryString()...)
	b = append(b, '|')
	b = append(b, u.FullURI()...)
	return b
}

func zzDumpCookie(c *Cookie) []byte {
	var b []byte
	for _, p := range [][]byte{c.Key(), c.Value(), c.Domain(), c.Path()} {
		b = append(b, p...)
		b = append(b, '|')
	}
	if c.HTTPOnly() {
		b = append(b, 'H')
	}
	if c.Secure() {
		b = append(b, 'S')
	}
	if c.Partitioned() {
		b = append(b, 'P')
	}
	b = append(b, byte('0'+c.SameSite()))
	b = append(b, byte('0'+c.MaxAge()%10))
	if !c.Expire().IsZero() {
		b = append(b, 'E')
	}
	c.SetKey("nk")
	b = append(b, c.Cookie()...)
	return b
}

func zzDumpRequest(r *Request) []byte {
	var b []byte
	b = append(b, r.Header.Method()...)
	b = append(b, '|')
	b = append(b, r.Header.RequestURI()...)
	b = append(b, '|')
	b = append(b, r.Body()...)
	b = append(b, '|')
	r.Header.VisitAll(func(k, v []byte) {
		b = append(b, k...)
		b = append(b, '=')
		b = append(b, v...)
		b = append(b, ';')
	})
	if r.IsBodyStream() {
		b = append(b, 'B')
	}
	if r.ConnectionClose() {
		b = append(b, 'C')
	}
	if r.IsURIParsed() {
		b = append(b, 'U')
	}
	b = append(b, byte('0'+r.PostArgs().Len()))
	if r.HasMultipartForm() {
		b = append(b, 'M')
	}
	r.Header.Add("X-New", "nv")
	r.PostArgs().Add("pn", "pv")
	b = append(b, r.Header.Header()...)
	b = append(b, r.PostArgString()...)
	b = append(b, zzDumpURI(r.URI())...)
	return b
}

func zzDumpResponse(r *Response) []byte {
	var b []byte
	b = append(b, byte('0'+r.StatusCode()/100), byte('0'+r.StatusCode()%10))
	b = append(b, '|')
	b = append(b, r.Body()...)
	b = append(b, '|')
	r.Header.VisitAll(func(k, v []byte) {
		b = append(b, k...)
		b = append(b, '=')
		b = append(b, v...)
		b = append(b, ';')
	})
	if r.IsBodyStream() {
		b = append(b, 'B')
	}
	if r.ConnectionClose() {
		b = append(b, 'C')
	}
	if r.SkipBody {
		b = append(b, 'K')
	}
	if r.ImmediateHeaderFlush {
		b = append(b, 'F')
	}
	if r.GetHijackWriter() != nil {
		b = append(b, 'W')
	}
	r.Header.SetNoDefaultDate(true)
	r.Header.Add("X-New", "nv")
	b = append(b, r.Header.Header()...)
	return b
}

// ZZ_C09_H2: values obtained from the public Acquire functions after a Release are
// indistinguishable from freshly allocated ones, whatever a symbolic choice of two mutators did
// to them before the Release (sync.Pool hands the same object back).
func ZZ_C09_H2() {
	kind := zz.Choose("kind", 4)
	m1 := zz.Choose("mutator1", 12)
	m2 := zz.Choose("mutator2", 12)
	arg := zz.Bytes("arg", 1)
	zz.Assume(arg[0] > ' ' && arg[0] < 0x7f && arg[0] != ';' && arg[0] != '=' && arg[0] != '&' && arg[0] != '#' && arg[0] != '%' && arg[0] != '?' && arg[0] != '/' && arg[0] != '@' && arg[0] != ':')
	s := string(arg)
	zz.Cover("reached-assert", true)
	switch kind {
	case 0:
		u := AcquireURI()
		for _, m := range []int{m1, m2} {
			switch m {
			case 0:
				u.SetPath("/p" + s)
			case 1:
				u.SetQueryString("q=" + s + "&flag")
			case 2:
				u.SetHash(s)
			case 3:
				u.SetHost("h" + s)
			case 4:
				u.SetScheme("https")
			case 5:
				u.SetUsername("u" + s)
			case 6:
				u.SetPassword("p" + s)
			case 7:
				u.QueryArgs().Add("a"+s, s)
			case 8:
				u.Parse(nil, []byte("http://x"+s+"/y?z&w=1#f"))
			case 9:
				u.DisablePathNormalizing = true
			case 10:
				u.QueryArgs().Add("novalue", "")
			case 11:
				_ = u.LastPathSegment()
			}
		}
		ReleaseURI(u)
		again := AcquireURI()
		zz.Cover("same-object-reissued", again == u)
		zz.Assert("recycled-uri-like-fresh", bytes.Equal(zzDumpURI(again), zzDumpURI(&URI{})))
	case 1:
		c := AcquireCookie()
		for _, m := range []int{m1, m2} {
			switch m {
			case 0:
				c.SetKey("k" + s)
			case 1:
				c.SetValue(s)
			case 2:
				c.SetDomain("d" + s)
			case 3:
				c.SetPath("/" + s)
			case 4:
				c.SetMaxAge(7)
			case 5:
				c.SetHTTPOnly(true)
			case 6:
				c.SetSecure(true)
			case 7:
				c.SetSameSite(CookieSameSiteStrictMode)
			case 8:
				c.SetPartitioned(true)
			case 9:
				_ = c.ParseBytes([]byte("a=" + s + "; path=/x; secure; samesite=none"))
			case 10:
				c.SetExpire(time.Unix(1000, 0))
			case 11:
				_ = c.Cookie()
			}
		}
		ReleaseCookie(c)
		again := AcquireCookie()
		zz.Assert("recycled-cookie-like-fresh", bytes.Equal(zzDumpCookie(again), zzDumpCookie(&Cookie{})))
	case 2:
		r := AcquireRequest()
		for _, m := range []int{m1, m2} {
			switch m {
			case 0:
				r.SetRequestURI("http://h/p" + s + "?a=b&flag")
			case 1:
				r.SetBodyString("b" + s)
			case 2:
				r.Header.Set("X-"+s, s)
			case 3:
				r.Header.SetMethod("PUT")
			case 4:
				r.SetBodyStream(bytes.NewReader([]byte("st"+s)), 3)
			case 5:
				r.SetConnectionClose()
			case 6:
				r.PostArgs().Add("pa", s)
			case 7:
				r.Header.SetCookie("c", s)
			case 8:
				_ = r.URI().Path()
			case 9:
				r.SetBodyRaw([]byte("raw" + s))
			case 10:
				r.Header.Trailer().Set("X-T", s) //nolint:errcheck
			case 11:
				r.SetFormData(map[string]string{"f": s})
			}
		}
		ReleaseRequest(r)
		again := AcquireRequest()
		zz.Assert("recycled-request-like-fresh", bytes.Equal(zzDumpRequest(again), zzDumpRequest(&Request{})))
	case 3:
		r := AcquireResponse()
		for _, m := range []int{m1, m2} {
			switch m {
			case 0:
				r.SetStatusCode(418)
			case 1:
				r.SetBodyString("b" + s)
			case 2:
				r.Header.Set("X-"+s, s)
			case 3:
				r.SetBodyStream(bytes.NewReader([]byte("st"+s)), -1)
			case 4:
				r.SetConnectionClose()
			case 5:
				r.SkipBody = true
			case 6:
				r.SetBodyRaw([]byte("raw" + s))
			case 7:
				r.Header.SetContentType("x/" + s)
			case 8:
				r.ImmediateHeaderFlush = true
			case 9:
				r.AppendBodyString("ab" + s)
			case 10:
				r.Header.Trailer().Set("X-T", s) //nolint:errcheck
			case 11:
				r.Header.SetCookie(&Cookie{})
			}
		}
		ReleaseResponse(r)
		again := AcquireResponse()
		zz.Assert("recycled-response-like-fresh", bytes.Equal(zzDumpResponse(again), zzDumpResponse(&Response{})))
	}
}
