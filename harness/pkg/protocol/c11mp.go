//go:build verif

package protocol

import (
	"bytes"
	"io"
	"mime/multipart"

	zz "github.com/cloudwego/hertz/internal/zzverif"
)

// zzPieceReader hands out data in pieces of the given sizes (then the rest), so that short
// reads - legal for any io.Reader - are part of the check.
type zzPieceReader struct {
	data   []byte
	pieces []int
	calls  int
}

func (r *zzPieceReader) Read(p []byte) (int, error) {
	if len(r.data) == 0 {
		return 0, io.EOF
	}
	n := len(r.data)
	if r.calls < len(r.pieces) && r.pieces[r.calls] < n {
		n = r.pieces[r.calls]
	}
	r.calls++
	if n > len(p) {
		n = len(p)
	}
	copy(p, r.data[:n])
	r.data = r.data[n:]
	return n, nil
}

// zzReadPart: strict reader of one multipart part starting at b[i:]: "--" boundary CRLF, header
// lines, empty line, content up to CRLF "--" boundary. Returns the header block, the content and
// the index of the delimiter that follows.
func zzReadPart(b []byte, i int, boundary string) (hdr, content []byte, next int, ok bool) {
	delim := []byte("--" + boundary)
	if !bytes.HasPrefix(b[i:], delim) {
		return nil, nil, 0, false
	}
	i += len(delim)
	if !bytes.HasPrefix(b[i:], []byte("\r\n")) {
		return nil, nil, 0, false
	}
	i += 2
	he := bytes.Index(b[i:], []byte("\r\n\r\n"))
	if he < 0 {
		return nil, nil, 0, false
	}
	hdr = b[i : i+he+2]
	i += he + 4
	ce := bytes.Index(b[i:], append([]byte("\r\n"), delim...))
	if ce < 0 {
		return nil, nil, 0, false
	}
	return hdr, b[i : i+ce], i + ce + 2, true
}

// ZZ_C11_MP: multipart request bodies as the client assembles them (handleMultipart's building
// blocks: WriteMultipartFormFile for files given as readers, AddMultipartFormField for fields,
// on a real mime/multipart.Writer). File and field contents are symbolic; the file's reader
// returns its data in pieces of chosen sizes. An independent strict reader must find exactly two
// parts, each with its Content-Disposition naming the parameter (and file name), whose contents
// are exactly the bytes given, followed by the closing delimiter and nothing else.
func ZZ_C11_MP() {
	fl := zz.Range("filelen", 0, zz.Param("F", 4))
	file := zz.Bytes("file", fl)
	field := zz.Bytes("field", zz.Range("fieldlen", 0, zz.Param("V", 2)))
	for _, c := range file {
		zz.Assume(c != '-') // content may not imitate the delimiter (the writer does not check either)
	}
	for _, c := range field {
		zz.Assume(c != '-')
	}
	var pieces []int
	for i := 0; i < zz.Range("npieces", 0, 2); i++ {
		pieces = append(pieces, zz.Range("piece", 1, 3))
	}
	var out bytes.Buffer
	w := multipart.NewWriter(&out)
	if err := w.SetBoundary("zzBOUNDARYzz"); err != nil {
		zz.Assert("boundary-accepted", false)
		return
	}
	err1 := WriteMultipartFormFile(w, "upload", "a.bin", &zzPieceReader{data: append([]byte(nil), file...), pieces: pieces})
	err2 := AddMultipartFormField(w, &MultipartField{Param: "note", Reader: bytes.NewReader(field)})
	err3 := w.Close()
	zz.Cover("reached-assert", true)
	zz.Cover("short-first-read", len(pieces) > 0 && pieces[0] < len(file))
	zz.Assert("no-error", err1 == nil && err2 == nil && err3 == nil)
	b := out.Bytes()
	h1, c1, n1, ok1 := zzReadPart(b, 0, "zzBOUNDARYzz")
	zz.Assert("first-part-well-formed", ok1)
	if !ok1 {
		return
	}
	zz.Assert("file-part-names-parameter-and-file", bytes.Contains(h1, []byte(`Content-Disposition: form-data; name="upload"; filename="a.bin"`+"\r\n")))
	zz.Assert("file-content-is-exactly-the-bytes-given", bytes.Equal(c1, file))
	h2, c2, n2, ok2 := zzReadPart(b, n1, "zzBOUNDARYzz")
	zz.Assert("second-part-well-formed", ok2)
	if !ok2 {
		return
	}
	zz.Assert("field-part-names-parameter", bytes.Contains(h2, []byte(`Content-Disposition: form-data; name="note"`+"\r\n")))
	zz.Assert("field-content-is-exactly-the-bytes-given", bytes.Equal(c2, field))
	zz.Assert("closing-delimiter-and-nothing-else", string(b[n2:]) == "--zzBOUNDARYzz--\r\n")
}
