//go:build verif

package app

import (
	zz "github.com/cloudwego/hertz/internal/zzverif"
)

// ZZ_C09_H4: field-level non-interference of RequestContext.Reset / ResetWithoutConn: after the
// reset a havoc'ed context equals a freshly created one that went through the same reset, up to
// the connection-scoped fields the property names as retained.
func ZZ_C09_H4() {
	withoutConn := zz.Choose("withoutConn", 2) == 1
	x := NewContext(0)
	fresh := NewContext(0)
	x.Request.Header.Trailer()
	x.Response.Header.Trailer()
	x.Request.URI()
	x.Request.PostArgs()
	x.Request.BodyBuffer()
	x.Response.BodyBuffer()
	zz.Havoc("ctx", x)
	x.SetEnableTrace(false) // representation invariant: tracing on implies a trace info object
	if withoutConn {
		x.ResetWithoutConn()
		fresh.ResetWithoutConn()
	} else {
		x.Reset()
		fresh.Reset()
	}
	zz.Cover("reached-assert", true)
	zz.Assert("context-reset-equals-fresh", zz.SameState(x, fresh, zz.IgnoreRequestContext))
}
