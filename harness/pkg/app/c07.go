//go:build verif

package app

import (
	zz "github.com/cloudwego/hertz/internal/zzverif"
)

// zzContained: starts with '/', no '..' segment, no empty or '.' segment except possibly the last.
func zzContained(p []byte) bool {
	if len(p) == 0 || p[0] != '/' {
		return false
	}
	start := 1
	for i := 1; i <= len(p); i++ {
		if i < len(p) && p[i] != '/' {
			continue
		}
		seg := p[start:i]
		last := i == len(p)
		if len(seg) == 2 && seg[0] == '.' && seg[1] == '.' {
			return false
		}
		if !last && (len(seg) == 0 || (len(seg) == 1 && seg[0] == '.')) {
			return false
		}
		start = i + 1
	}
	return true
}

var zzHostAlpha = func() (t [256]bool) {
	for _, c := range []byte("ab./%2e:") {
		t[c] = true
	}
	return
}()

// ZZ_C07_H5: the path the file handler serves from after a path rewriter ran. The virtual-host
// rewriter puts the request's Host (symbolic bytes, attacker-chosen) in front of the path, the
// slash stripper removes leading segments: the path handed to the file handler still begins with
// '/', has no '..' segment and no empty or '.' inner segment.
func ZZ_C07_H5() {
	host := zz.Bytes("host", zz.Range("hostlen", 0, zz.Param("H", 3)))
	for _, c := range host {
		zz.Assume(zzHostAlpha[c])
	}
	tail := zz.Bytes("path", zz.Range("pathlen", 0, zz.Param("P", 2)))
	for _, c := range tail {
		zz.Assume(zzHostAlpha[c])
	}
	strip := zz.Range("slashesCount", 0, 1)
	ctx := NewContext(0)
	ctx.Request.SetRequestURI("/" + string(tail))
	ctx.Request.Header.SetHostBytes(host)
	var out []byte
	if zz.Choose("rewriter", 2) == 0 {
		out = NewVHostPathRewriter(strip)(ctx)
	} else {
		out = NewPathSlashesStripper(strip)(ctx)
		if len(out) == 0 {
			out = []byte("/") // (the handler treats an empty rewritten path as the root)
		}
	}
	zz.Cover("reached-assert", true)
	zz.Assert("rewritten-path-stays-contained", zzContained(out))
}
