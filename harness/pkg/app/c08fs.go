//go:build verif

package app

import (
	"bytes"
	"context"
	"time"

	zz "github.com/cloudwego/hertz/internal/zzverif"
)

type zzFSTarget struct {
	uri  string
	kind int // 0 file, 1 missing (404), 2 directory without index file
	file int // index into the contents
}

// ZZ_C08_FS: the file handler from FS.NewRequestHandler over a directory tree (in memory under
// the executor, a real temporary directory natively): a small file with symbolic content of
// 0..F bytes, a file above the small-file threshold (9000 bytes, two of them symbolic), an
// empty file without extension, a directory with an index file, one without, and a file beside
// the root. Q requests in a row on the same handler (file cache, pooled readers), each a target
// (plain, doubled slash, directory with/without slash, missing, three traversal spellings) x
// GET/HEAD x no Range or one of six range forms: the answer is exactly the requested slice of
// the right file with consistent Content-Length/Content-Range, 404 for what is not under the
// root, 416 for an unsatisfiable range; nothing of the file beside the root is ever served.
// File names carry extensions of Go's built-in MIME table (or none), so that the content-type
// sniffing path is taken for the same files natively and under the executor, whatever
// /etc/mime.types says.
func ZZ_C08_FS() {
	base := zz.FSRoot()
	defer zz.FSDone(base)
	root := base + "/root"
	small := zz.Bytes("small", zz.Range("smalllen", 0, zz.Param("F", 2)))
	big := make([]byte, 9000)
	for i := range big {
		big[i] = byte('a' + i%26)
	}
	sym := zz.Bytes("bigbytes", 2)
	big[0], big[8999] = sym[0], sym[1]
	secret := []byte("TOP-SECRET")
	contents := [][]byte{small, big, {}, []byte("INDEX"), []byte("PLUS")}
	zz.FSAdd(root+"/p+q.css", contents[4])
	zz.FSAdd(root+"/p q.css", []byte("SPACE"))
	zz.FSAdd(root+"/s.css", small)
	zz.FSAdd(root+"/big.js", big)
	zz.FSAdd(root+"/empty", nil)
	zz.FSAdd(root+"/d/index.html", contents[3])
	zz.FSAdd(root+"/e/x.css", []byte("x"))
	zz.FSAdd(base+"/secret.txt", secret)
	targets := []zzFSTarget{
		{"/s.css", 0, 0}, {"/big.js", 0, 1}, {"/empty", 0, 2}, {"/d/", 0, 3}, {"/d", 0, 3},
		{"//s.css", 0, 0}, {"/d/../s.css", 0, 0}, {"/p+q%2Ecss", 0, 4},
		{"/s.css/below", 1, 0},
		{"/missing.css", 1, 0}, {"/../secret.txt", 1, 0}, {"/d/../../secret.txt", 1, 0}, {"/%2e%2e/secret.txt", 1, 0},
		{"/e/", 2, 0},
	}
	fs := &FS{
		Root:               root,
		IndexNames:         []string{"index.html"},
		GenerateIndexPages: true,
		AcceptByteRange:    true,
		CacheDuration:      time.Hour,
	}
	// the two options are asked for only in histories they can matter in (a directory without
	// index file / a Range header among the requests)
	firstTarget := zz.Choose("target", len(targets))
	if targets[firstTarget].kind == 2 {
		fs.GenerateIndexPages = zz.Choose("generateIndexPages", 2) == 1
	}
	anyRange := zz.Choose("anyRange", 2) == 1
	if anyRange {
		fs.AcceptByteRange = zz.Choose("acceptByteRange", 2) == 1
	}
	h := fs.NewRequestHandler()
	ranges := []string{"bytes=0-0", "bytes=1-", "bytes=-1", "bytes=2-1", "bytes=8999-9005", "bytes=9000-"}
	rounds := zz.Range("requests", 1, zz.Param("Q", 2))
	for round := 0; round < rounds; round++ {
		// later requests go to the same target again (file cache, pooled readers) or to one other file
		ti := firstTarget
		if round > 0 && zz.Choose("otherTarget", 2) == 1 {
			ti = 0
			if firstTarget == 0 {
				ti = 1
			}
		}
		tg := targets[ti]
		head := zz.Choose("head", 2) == 1
		var rng []byte
		if anyRange && zz.Choose("range", 2) == 1 {
			rng = []byte(ranges[zz.Choose("rangeform", len(ranges))])
		}
		ctx := NewContext(0)
		ctx.Request.SetRequestURI(tg.uri)
		if head {
			ctx.Request.Header.SetMethod("HEAD")
		}
		if rng != nil {
			ctx.Request.Header.SetBytesKV([]byte("Range"), rng)
		}
		h(context.Background(), ctx)
		status := ctx.Response.StatusCode()
		var body []byte
		if ctx.Response.IsBodyStream() {
			buf := make([]byte, 4096)
			r := ctx.Response.BodyStream()
			for i := 0; i < 64; i++ {
				n, err := r.Read(buf)
				body = append(body, buf[:n]...)
				if err != nil {
					break
				}
			}
			ctx.Response.CloseBodyStream() //nolint:errcheck
		} else {
			body = ctx.Response.Body()
		}
		cl := ctx.Response.Header.ContentLength()
		cr := ctx.Response.Header.Peek("Content-Range")
		zz.Cover("reached-assert", true)
		zz.Assert("nothing-outside-the-root-is-served", !bytes.Contains(body, secret))
		switch tg.kind {
		case 1:
			zz.Cover("not-found", true)
			zz.Assert("missing-or-outside-the-root-gets-404", status == 404)
			continue
		case 2:
			if fs.GenerateIndexPages {
				zz.Cover("generated-index", true)
				zz.Assert("generated-index-lists-the-directory", (status == 200 || status == 206 || status == 416) && (head || status != 200 || bytes.Contains(body, []byte("x.css"))))
			} else {
				zz.Assert("directory-without-index-is-refused", status == 403)
			}
			continue
		}
		content := contents[tg.file]
		rs, re, ok := 0, len(content)-1, true
		ranged := rng != nil && fs.AcceptByteRange
		if ranged {
			rs, re, ok = zzRefRange(rng[6:], len(content))
		}
		if !ok {
			zz.Cover("unsatisfiable", true)
			zz.Assert("unsatisfiable-range-gets-416", status == 416)
			continue
		}
		wantStatus := 200
		if ranged {
			wantStatus = 206
			zz.Cover("partial", true)
		}
		if tg.file == 1 {
			zz.Cover("big-file", true)
			zz.Cover("big-file-again", round > 0)
		}
		zz.Assert("status", status == wantStatus)
		want := content[rs : re+1]
		zz.Assert("content-length-matches-selected-bytes", cl == len(want))
		if head {
			zz.Assert("head-has-no-body", len(body) == 0 && ctx.Response.SkipBody)
		} else {
			zz.Assert("body-is-exactly-the-requested-slice", bytes.Equal(body, want))
		}
		if ranged {
			wantCR := "bytes " + zzItoaApp(rs) + "-" + zzItoaApp(re) + "/" + zzItoaApp(len(content))
			zz.Assert("content-range-consistent", string(cr) == wantCR)
		} else {
			zz.Assert("no-content-range-without-range", len(cr) == 0)
		}
	}
}

// ZZ_C08_GZ: the Compress option with compressed twins that already exist beside their files
// (same modification time, so they are fresh): a request that accepts gzip and carries no Range
// header gets the twin's bytes with Content-Encoding: gzip; every other request gets the bytes
// of the file itself (a Range always selects from the uncompressed file); a missing index name
// ahead of the existing one does not hide it; missing files stay 404. Creating twins (the gzip
// writer) is outside: every file of this tree has its twin.
func ZZ_C08_GZ() {
	base := zz.FSRoot()
	defer zz.FSDone(base)
	root := base + "/root"
	small := zz.Bytes("small", zz.Range("smalllen", 0, zz.Param("F", 2)))
	contents := [][]byte{small, []byte("INDEX")}
	twins := [][]byte{[]byte("\x1f\x8bTWIN-OF-S"), []byte("\x1f\x8bTWIN-OF-INDEX")}
	zz.FSAdd(root+"/s.css", small)
	zz.FSAdd(root+"/s.css.hertz.gz", twins[0])
	zz.FSAdd(root+"/d/index.html", contents[1])
	zz.FSAdd(root+"/d/index.html.hertz.gz", twins[1])
	targets := []zzFSTarget{{"/s.css", 0, 0}, {"/d/", 0, 1}, {"/missing.css", 1, 0}}
	fs := &FS{
		Root:            root,
		IndexNames:      []string{"nope.html", "index.html"},
		Compress:        true,
		AcceptByteRange: zz.Choose("acceptByteRange", 2) == 1,
		CacheDuration:   time.Hour,
	}
	h := fs.NewRequestHandler()
	ranges := []string{"bytes=0-0", "bytes=1-"}
	firstTarget := zz.Choose("target", len(targets))
	rounds := zz.Range("requests", 1, zz.Param("Q", 2))
	for round := 0; round < rounds; round++ {
		ti := firstTarget
		if round > 0 && zz.Choose("otherTarget", 2) == 1 {
			ti = (firstTarget + 1) % 2
		}
		tg := targets[ti]
		head := zz.Choose("head", 2) == 1
		gz := zz.Choose("acceptsGzip", 2) == 1
		var rng []byte
		if zz.Choose("range", 2) == 1 {
			rng = []byte(ranges[zz.Choose("rangeform", len(ranges))])
		}
		ctx := NewContext(0)
		ctx.Request.SetRequestURI(tg.uri)
		if head {
			ctx.Request.Header.SetMethod("HEAD")
		}
		if gz {
			ctx.Request.Header.Set("Accept-Encoding", "gzip")
		}
		if rng != nil {
			ctx.Request.Header.SetBytesKV([]byte("Range"), rng)
		}
		h(context.Background(), ctx)
		status := ctx.Response.StatusCode()
		var body []byte
		if ctx.Response.IsBodyStream() {
			buf := make([]byte, 64)
			r := ctx.Response.BodyStream()
			for i := 0; i < 16; i++ {
				n, err := r.Read(buf)
				body = append(body, buf[:n]...)
				if err != nil {
					break
				}
			}
			ctx.Response.CloseBodyStream() //nolint:errcheck
		} else {
			body = ctx.Response.Body()
		}
		cl := ctx.Response.Header.ContentLength()
		ce := ctx.Response.Header.Peek("Content-Encoding")
		zz.Cover("reached-assert", true)
		if tg.kind == 1 {
			zz.Assert("missing-gets-404", status == 404)
			continue
		}
		useTwin := gz && rng == nil
		content := contents[tg.file]
		if useTwin {
			zz.Cover("twin-served", true)
			content = twins[tg.file]
		}
		zz.Assert("content-encoding-gzip-exactly-when-the-twin-is-served", (string(ce) == "gzip") == useTwin)
		rs, re, ok := 0, len(content)-1, true
		ranged := rng != nil && fs.AcceptByteRange
		if ranged {
			rs, re, ok = zzRefRange(rng[6:], len(content))
		}
		if !ok {
			zz.Assert("unsatisfiable-range-gets-416", status == 416)
			continue
		}
		wantStatus := 200
		if ranged {
			wantStatus = 206
			zz.Cover("range-of-the-uncompressed-file", gz)
		}
		zz.Assert("status", status == wantStatus)
		want := content[rs : re+1]
		zz.Assert("content-length-matches-selected-bytes", cl == len(want))
		if head {
			zz.Assert("head-has-no-body", len(body) == 0)
		} else {
			zz.Assert("body-is-exactly-the-requested-slice", bytes.Equal(body, want))
		}
	}
}
