//go:build verif

package app

import (
	"bytes"
	"context"

	zz "github.com/cloudwego/hertz/internal/zzverif"
)

// reference: RFC 7233 single byte-range resolution against a representation of length cl.
// r is the text after "bytes=". ok=false means unsatisfiable / malformed.
func zzRefNum(b []byte) (v int, ok bool) {
	if len(b) == 0 {
		return 0, false
	}
	for _, c := range b {
		if c < '0' || c > '9' {
			return 0, false
		}
		v = v*10 + int(c-'0')
	}
	return v, true
}

func zzRefRange(r []byte, cl int) (start, end int, ok bool) {
	dash := -1
	for i, c := range r {
		if c == '-' {
			dash = i
			break
		}
	}
	if dash < 0 {
		return 0, 0, false
	}
	if dash == 0 {
		// suffix range: last n bytes; unsatisfiable when n == 0 or the representation is empty
		n, ok := zzRefNum(r[1:])
		if !ok || n == 0 || cl == 0 {
			return 0, 0, false
		}
		start = cl - n
		if start < 0 {
			start = 0
		}
		return start, cl - 1, true
	}
	a, ok := zzRefNum(r[:dash])
	if !ok || a >= cl {
		return 0, 0, false
	}
	if dash == len(r)-1 {
		return a, cl - 1, true
	}
	b, ok := zzRefNum(r[dash+1:])
	if !ok || b < a {
		return 0, 0, false
	}
	if b >= cl {
		b = cl - 1
	}
	return a, b, true
}

// zzRefSyntaxOK: r has the form of a byte-range-spec ("a-", "a-b" with a <= b, "-n").
func zzRefSyntaxOK(r []byte) bool {
	dash := -1
	for i, c := range r {
		if c == '-' {
			dash = i
			break
		}
	}
	if dash < 0 {
		return false
	}
	if dash == 0 {
		_, ok := zzRefNum(r[1:])
		return ok
	}
	a, ok := zzRefNum(r[:dash])
	if !ok {
		return false
	}
	if dash == len(r)-1 {
		return true
	}
	b, ok := zzRefNum(r[dash+1:])
	return ok && b >= a
}

// ZZ_C08_H1: ParseByteRange vs the RFC 7233 reference, every range text of <= N bytes (all byte
// values) against every non-negative 64-bit content length.
func ZZ_C08_H1() {
	n := zz.Range("n", 0, zz.Param("N", 5))
	r := zz.Bytes("r", n)
	cl := zz.Int("cl")
	zz.Assume(cl >= 0)
	br := append([]byte("bytes="), r...)
	start, end, err := ParseByteRange(br, cl)
	rs, re, ok := zzRefRange(r, cl)
	zz.Cover("reached-assert", true)
	zz.Cover("satisfiable", ok)
	zz.Cover("suffix-form", n >= 2 && r[0] == '-' && ok)
	zz.Assert("error-iff-unsatisfiable", (err == nil) == ok)
	if err == nil {
		zz.Assert("range-within-content", 0 <= start && start <= end && end < cl)
		if ok {
			zz.Assert("range-equals-rfc7233", start == rs && end == re)
		}
	}
}

// ZZ_C08_H2: no panic and in-bounds on arbitrary (not "bytes="-prefixed) header text.
func ZZ_C08_H2() {
	n := zz.Range("n", 0, zz.Param("N", 8))
	r := zz.Bytes("r", n)
	cl := zz.Int("cl")
	zz.Assume(cl >= 0)
	start, end, err := ParseByteRange(r, cl)
	zz.Cover("reached-assert", true)
	if err == nil {
		zz.Cover("accepted", true)
		zz.Assert("range-within-content", 0 <= start && start <= end && end < cl)
	}
}

func zzItoaApp(n int) string {
	if n == 0 {
		return "0"
	}
	var b []byte
	for n > 0 {
		b = append([]byte{byte('0' + n%10)}, b...)
		n /= 10
	}
	return string(b)
}

// ZZ_C08_H3: the request handler itself, on a file that is already in the handler's cache as
// an in-memory entry (the generated-index representation), so that no file system call is
// involved: GET and HEAD, with and without a Range header (range text symbolic), file contents
// symbolic. The answer is 200 with the whole file, 206 with exactly the requested slice and a
// consistent Content-Range / Content-Length, or 416; HEAD carries the same headers and no body;
// two requests in a row hit the cache and the pooled reader.
func ZZ_C08_H3() {
	big := zz.Choose("big", 2) == 1
	var content []byte
	if big {
		// larger than MaxSmallFileSize: still an in-memory entry, must not be treated as a big file
		content = make([]byte, 8200)
		for i := range content {
			content[i] = byte('a' + i%26)
		}
		sym := zz.Bytes("filebytes", 2)
		content[0], content[8199] = sym[0], sym[1]
	} else {
		content = zz.Bytes("file", zz.Range("filelen", 0, zz.Param("F", 4)))
	}
	h := &fsHandler{
		cache:           map[string]*fsFile{},
		compressedCache: map[string]*fsFile{},
		acceptByteRange: zz.Choose("acceptByteRange", 2) == 1,
	}
	ff := &fsFile{h: h, dirIndex: content, contentType: "text/plain", contentLength: len(content), lastModifiedStr: []byte("Mon, 02 Jan 2006 15:04:05 GMT")}
	h.cache["/f"] = ff
	rounds := zz.Range("requests", 1, zz.Param("Q", 1))
	for round := 0; round < rounds; round++ {
		head := zz.Choose("head", 2) == 1
		useRange := zz.Choose("range", 2) == 1
		var rng []byte
		if useRange && big {
			rng = []byte([]string{"bytes=8190-", "bytes=-3", "bytes=0-0", "bytes=8200-", "bytes=5-8300"}[zz.Choose("bigrange", 5)])
		} else if useRange {
			rng = append([]byte("bytes="), zz.Bytes("rangetext", zz.Range("rangelen", 0, zz.Param("R", 3)))...)
		}
		ctx := NewContext(0)
		ctx.Request.SetRequestURI("/f")
		if head {
			ctx.Request.Header.SetMethod("HEAD")
		}
		if useRange {
			ctx.Request.Header.SetBytesKV([]byte("Range"), rng)
		}
		h.handleRequest(context.Background(), ctx)
		status := ctx.Response.StatusCode()
		var body []byte
		if ctx.Response.IsBodyStream() {
			buf := make([]byte, 3)
			if big {
				buf = make([]byte, 4096)
			}
			r := ctx.Response.BodyStream()
			for i := 0; i < 64; i++ {
				n, err := r.Read(buf)
				body = append(body, buf[:n]...)
				if err != nil {
					break
				}
			}
			ctx.Response.CloseBodyStream() //nolint:errcheck
		} else {
			body = ctx.Response.Body()
		}
		cl := ctx.Response.Header.ContentLength()
		cr := ctx.Response.Header.Peek("Content-Range")
		zz.Cover("reached-assert", true)
		if zz.Param("PANICONLY", 0) == 1 {
			continue // run as part of C03: only "the handler does not panic" is demanded there
		}
		rs, re, ok := 0, len(content)-1, true
		ranged := useRange && h.acceptByteRange
		if ranged {
			rs, re, ok = zzRefRange(rng[6:], len(content))
		}
		if !ok {
			zz.Cover("unsatisfiable", true)
			if zzRefSyntaxOK(rng[6:]) {
				// well-formed but unsatisfiable (first position beyond the end, empty suffix)
				zz.Assert("unsatisfiable-range-gets-416", status == 416)
			} else {
				// malformed: hertz answers 416; ignoring the header (RFC 7233 3.1) would be fine too
				whole := status == 200 && cl == len(content) && (head || bytes.Equal(body, content))
				zz.Assert("malformed-range-gets-416-or-is-ignored", status == 416 || whole)
			}
			continue
		}
		wantStatus := 200
		if ranged {
			wantStatus = 206
			zz.Cover("partial", true)
		}
		zz.Assert("status", status == wantStatus)
		want := content[rs : re+1]
		zz.Assert("content-length-matches-selected-bytes", cl == len(want))
		if head {
			zz.Cover("head", true)
			zz.Assert("head-has-no-body", len(body) == 0 && ctx.Response.SkipBody)
		} else {
			zz.Assert("body-is-exactly-the-requested-slice", bytes.Equal(body, want))
		}
		if ranged {
			wantCR := "bytes " + zzItoaApp(rs) + "-" + zzItoaApp(re) + "/" + zzItoaApp(len(content))
			zz.Assert("content-range-consistent", string(cr) == wantCR)
		} else {
			zz.Assert("no-content-range-without-range", len(cr) == 0)
		}
	}
	zz.Assert("readers-released", ff.readersCount == 0)
}
