//go:build verif

package app

import (
	zz "github.com/cloudwego/hertz/internal/zzverif"
)

// reference: RFC 7233 single byte-range resolution against a representation of length cl.
// r is the text after "bytes=". ok=false means unsatisfiable / malformed.
func zzRefNum(b []byte) (v int, ok bool) {
	if len(b) == 0 {
		return 0, false
	}
	for _, c := range b {
		if c < '0' || c > '9' {
			return 0, false
		}
		v = v*10 + int(c-'0')
	}
	return v, true
}

func zzRefRange(r []byte, cl int) (start, end int, ok bool) {
	dash := -1
	for i, c := range r {
		if c == '-' {
			dash = i
			break
		}
	}
	if dash < 0 {
		return 0, 0, false
	}
	if dash == 0 {
		// suffix range: last n bytes; unsatisfiable when n == 0 or the representation is empty
		n, ok := zzRefNum(r[1:])
		if !ok || n == 0 || cl == 0 {
			return 0, 0, false
		}
		start = cl - n
		if start < 0 {
			start = 0
		}
		return start, cl - 1, true
	}
	a, ok := zzRefNum(r[:dash])
	if !ok || a >= cl {
		return 0, 0, false
	}
	if dash == len(r)-1 {
		return a, cl - 1, true
	}
	b, ok := zzRefNum(r[dash+1:])
	if !ok || b < a {
		return 0, 0, false
	}
	if b >= cl {
		b = cl - 1
	}
	return a, b, true
}

// ZZ_C08_H1: ParseByteRange vs the RFC 7233 reference, every range text of <= N bytes (all byte
// values) against every non-negative 64-bit content length.
func ZZ_C08_H1() {
	n := zz.Range("n", 0, zz.Param("N", 5))
	r := zz.Bytes("r", n)
	cl := zz.Int("cl")
	zz.Assume(cl >= 0)
	br := append([]byte("bytes="), r...)
	start, end, err := ParseByteRange(br, cl)
	rs, re, ok := zzRefRange(r, cl)
	zz.Cover("reached-assert", true)
	zz.Cover("satisfiable", ok)
	zz.Cover("suffix-form", n >= 2 && r[0] == '-' && ok)
	zz.Assert("error-iff-unsatisfiable", (err == nil) == ok)
	if err == nil {
		zz.Assert("range-within-content", 0 <= start && start <= end && end < cl)
		if ok {
			zz.Assert("range-equals-rfc7233", start == rs && end == re)
		}
	}
}

// ZZ_C08_H2: no panic and in-bounds on arbitrary (not "bytes="-prefixed) header text.
func ZZ_C08_H2() {
	n := zz.Range("n", 0, zz.Param("N", 8))
	r := zz.Bytes("r", n)
	cl := zz.Int("cl")
	zz.Assume(cl >= 0)
	start, end, err := ParseByteRange(r, cl)
	zz.Cover("reached-assert", true)
	if err == nil {
		zz.Cover("accepted", true)
		zz.Assert("range-within-content", 0 <= start && start <= end && end < cl)
	}
}
