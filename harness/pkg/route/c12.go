//go:build verif

package route

import (
	"context"
	"time"

	internalStats "github.com/cloudwego/hertz/internal/stats"
	zz "github.com/cloudwego/hertz/internal/zzverif"
	"github.com/cloudwego/hertz/pkg/app"
	"github.com/cloudwego/hertz/pkg/common/config"
)

// zzNewEngine builds an Engine without a transport (the harness calls ServeHTTP directly).
func zzNewEngine() *Engine {
	opt := &config.Options{
		DisablePrintRoute:      true,
		HandleMethodNotAllowed: true,
		BasePath:               "/",
		ExitWaitTimeout:        5 * time.Second,
	}
	e := &Engine{
		trees:       make(MethodTrees, 0, 9),
		RouterGroup: RouterGroup{basePath: "/", root: true},
		options:     opt,
		tracerCtl:   &internalStats.Controller{},
	}
	e.RouterGroup.engine = e
	return e
}

type zzEvent struct {
	kind byte // 'E' enter, 'X' exit-after-Next, 'A' abort called
	id   int
}

// zzMonitor checks the onion discipline on a trace of handler events.
//   - entries strictly increasing in registration index (each handler at most once, in order)
//   - no handler is entered after Abort has been called
//   - when a handler's code after Next runs ('X' id), every handler entered after it has
//     already finished (is not on the stack)
func zzMonitor(tr []zzEvent) (orderOK, abortOK, onionOK bool) {
	orderOK, abortOK, onionOK = true, true, true
	last := -1
	aborted := false
	for _, ev := range tr {
		switch ev.kind {
		case 'E':
			if ev.id <= last {
				orderOK = false
			}
			last = ev.id
			if aborted {
				abortOK = false
			}
		case 'A':
			aborted = true
		}
	}
	// onion: the handler functions really nest on the Go stack, so "returned" events ('R')
	// give the exact unwinding order: an 'X' of handler i must come after 'R' of every handler
	// j > i that was entered before that 'X'.
	entered := map[int]bool{}
	returned := map[int]bool{}
	for _, ev := range tr {
		switch ev.kind {
		case 'E':
			entered[ev.id] = true
		case 'R':
			returned[ev.id] = true
		case 'X':
			for j := range entered {
				if j > ev.id && !returned[j] {
					onionOK = false
				}
			}
		}
	}
	return
}

// ZZ_C12_H1: every chain of n handlers whose behaviours are symbolic (seven behaviours each).
func ZZ_C12_H1() {
	n := zz.Range("n", 1, zz.Param("N", 4))
	beh := zz.Bytes("behaviour", n)
	for _, b := range beh {
		zz.Assume(b < 7)
	}
	var tr []zzEvent
	chain := make(app.HandlersChain, n)
	for i := 0; i < n; i++ {
		id := i
		chain[i] = func(c context.Context, ctx *app.RequestContext) {
			tr = append(tr, zzEvent{'E', id})
			switch beh[id] {
			case 0: // plain return
			case 1: // Next, then code after Next
				ctx.Next(c)
				tr = append(tr, zzEvent{'X', id})
			case 2:
				tr = append(tr, zzEvent{'A', id})
				ctx.Abort()
			case 3:
				ctx.Next(c)
				tr = append(tr, zzEvent{'X', id})
				tr = append(tr, zzEvent{'A', id})
				ctx.Abort()
			case 4:
				tr = append(tr, zzEvent{'A', id})
				ctx.Abort()
				ctx.Next(c)
				tr = append(tr, zzEvent{'X', id})
			case 5:
				ctx.Next(c)
				tr = append(tr, zzEvent{'X', id})
				ctx.Next(c)
				tr = append(tr, zzEvent{'X', id})
			case 6:
				tr = append(tr, zzEvent{'A', id})
				ctx.AbortWithStatus(401)
			}
			tr = append(tr, zzEvent{'R', id})
		}
	}
	ctx := app.NewContext(0)
	ctx.SetHandlers(chain)
	ctx.Next(context.Background())
	a, b, c := zzMonitor(tr)
	zz.Cover("reached-assert", true)
	zz.Cover("some-abort", ctx.IsAborted())
	zz.Assert("first-handler-entered", len(tr) > 0 && tr[0].kind == 'E' && tr[0].id == 0)
	zz.Assert("entered-at-most-once-in-registration-order", a)
	zz.Assert("nothing-entered-after-abort", b)
	zz.Assert("code-after-next-runs-after-later-handlers-returned", c)
}

// ZZ_C12_H2: engine / group assembly. Middleware attached before a route is registered precedes
// the route's handlers (outermost group first); middleware attached afterwards does not apply to
// it; not-found and method-not-allowed run the engine-level middleware.
func ZZ_C12_H2() {
	depth := zz.Range("depth", 0, 2)
	lateAt := zz.Choose("lateUseAt", 4) // 0: none, 1: engine, 2: group1, 3: group2 (after the route)
	req := zz.Choose("request", 3)      // 0 matched, 1 unmatched path, 2 wrong method
	var tr []int
	mk := func(id int) app.HandlerFunc {
		return func(c context.Context, ctx *app.RequestContext) {
			tr = append(tr, id)
			ctx.Next(c)
		}
	}
	e := zzNewEngine()
	e.Use(mk(100))
	var want []int
	want = append(want, 100)
	g := &e.RouterGroup
	path := ""
	var g1, g2 *RouterGroup
	if depth >= 1 {
		g1 = g.Group("/a", mk(101))
		g = g1
		path += "/a"
		want = append(want, 101)
	}
	if depth >= 2 {
		g2 = g.Group("/b", mk(102))
		g = g2
		path += "/b"
		want = append(want, 102)
	}
	g.GET("/c", mk(200), mk(201))
	path += "/c"
	wantMatched := append(append([]int(nil), want...), 200, 201)
	switch lateAt {
	case 1:
		e.Use(mk(900))
	case 2:
		if g1 != nil {
			g1.Use(mk(901))
		}
	case 3:
		if g2 != nil {
			g2.Use(mk(902))
		}
	}
	ctx := app.NewContext(0)
	ctx.Request.SetHost("h")
	switch req {
	case 0:
		ctx.Request.SetRequestURI(path)
		ctx.Request.Header.SetMethod("GET")
	case 1:
		ctx.Request.SetRequestURI("/nope")
		ctx.Request.Header.SetMethod("GET")
	case 2:
		ctx.Request.SetRequestURI(path)
		ctx.Request.Header.SetMethod("POST")
	}
	e.ServeHTTP(context.Background(), ctx)
	zz.Cover("reached-assert", true)
	eq := func(a, b []int) bool {
		if len(a) != len(b) {
			return false
		}
		for i := range a {
			if a[i] != b[i] {
				return false
			}
		}
		return true
	}
	switch req {
	case 0:
		zz.Cover("matched", true)
		zz.Assert("engine-then-groups-outermost-first-then-route-handlers", eq(tr, wantMatched))
		zz.Assert("status-200", ctx.Response.StatusCode() == 200)
	case 1:
		// engine-level middleware registered so far (including a late engine Use) runs on 404
		w := []int{100}
		if lateAt == 1 {
			w = append(w, 900)
		}
		zz.Assert("not-found-runs-engine-middleware", eq(tr, w))
		zz.Assert("status-404", ctx.Response.StatusCode() == 404)
	case 2:
		w := []int{100}
		if lateAt == 1 {
			w = append(w, 900)
		}
		zz.Assert("method-not-allowed-runs-engine-middleware", eq(tr, w))
		zz.Assert("status-405", ctx.Response.StatusCode() == 405)
	}
}

// ZZ_C12_H3: sibling groups. Middleware is attached with several separate Use calls (so handler
// slices have spare capacity), two sibling groups are derived from the same parent without own
// handlers, each gets its own middleware afterwards; a request to either group must run the
// parent's middleware, then that group's own middleware, then the route handler - never the
// sibling's.
func ZZ_C12_H3() {
	nUse := zz.Range("engineUses", 1, 4)
	parentDepth := zz.Range("parentDepth", 0, 1)
	target := zz.Choose("target", 2)
	var tr []int
	mk := func(id int) app.HandlerFunc {
		return func(c context.Context, ctx *app.RequestContext) {
			tr = append(tr, id)
			ctx.Next(c)
		}
	}
	e := zzNewEngine()
	var want []int
	for i := 0; i < nUse; i++ {
		e.Use(mk(100 + i))
		want = append(want, 100+i)
	}
	parent := &e.RouterGroup
	prefix := ""
	if parentDepth == 1 {
		parent = parent.Group("/p")
		prefix = "/p"
		for i := 0; i < zz.Range("parentUses", 0, 3); i++ {
			parent.Use(mk(150 + i))
			want = append(want, 150+i)
		}
	}
	ga := parent.Group("/a")
	gb := parent.Group("/b")
	ga.Use(mk(201))
	gb.Use(mk(202))
	ga.GET("/r", mk(301))
	gb.GET("/r", mk(302))
	ctx := app.NewContext(0)
	ctx.Request.SetHost("h")
	ctx.Request.Header.SetMethod("GET")
	if target == 0 {
		ctx.Request.SetRequestURI(prefix + "/a/r")
		want = append(want, 201, 301)
	} else {
		ctx.Request.SetRequestURI(prefix + "/b/r")
		want = append(want, 202, 302)
	}
	e.ServeHTTP(context.Background(), ctx)
	zz.Cover("reached-assert", true)
	same := len(tr) == len(want)
	if same {
		for i := range tr {
			if tr[i] != want[i] {
				same = false
			}
		}
	}
	zz.Assert("own-group-middleware-not-the-siblings", same)
}

var zzMethods = []string{"GET", "POST", "PUT", "PATCH", "HEAD", "OPTIONS", "DELETE", "CONNECT", "TRACE"}

// ZZ_C12_H4: routes registered for every method at once (Any) under engine and group
// middleware, and custom not-found / method-not-allowed handlers installed before or after the
// engine middleware: whatever the request method, the middleware is entered exactly once, outermost
// first, before the route's own handler; the custom 404/405 handlers run after the engine
// middleware registered at any time.
func ZZ_C12_H4() {
	nUse := zz.Range("engineUses", 1, 2)
	noRouteAt := zz.Choose("noRouteAt", 3) // 0 default, 1 before Use, 2 after Use
	noMethodAt := zz.Choose("noMethodAt", 3)
	req := zz.Choose("request", 3) // 0 matched (Any), 1 unmatched, 2 wrong method on a GET-only route
	method := zzMethods[zz.Choose("method", len(zzMethods))]
	var tr []int
	mk := func(id int) app.HandlerFunc {
		return func(c context.Context, ctx *app.RequestContext) {
			tr = append(tr, id)
			ctx.Next(c)
		}
	}
	e := zzNewEngine()
	if noRouteAt == 1 {
		e.NoRoute(mk(400))
	}
	if noMethodAt == 1 {
		e.NoMethod(mk(500))
	}
	var mw []int
	if zz.Choose("useFromCallerSlice", 2) == 1 {
		// the middleware comes from a slice the caller keeps using (spare capacity, later
		// overwritten): the engine's chain must not alias it
		own := make([]app.HandlerFunc, 0, nUse+2)
		for i := 0; i < nUse; i++ {
			own = append(own, mk(100+i))
			mw = append(mw, 100+i)
		}
		e.Use(own...)
		own[0] = mk(900)
		own = append(own, mk(901))
		zz.Cover("caller-slice", true)
	} else {
		for i := 0; i < nUse; i++ {
			e.Use(mk(100 + i))
			mw = append(mw, 100+i)
		}
	}
	if noRouteAt == 2 {
		e.NoRoute(mk(400))
	}
	if noMethodAt == 2 {
		e.NoMethod(mk(500))
	}
	g := e.Group("/g", mk(150))
	g.Any("/any", mk(200))
	g.GET("/get", mk(201))
	ctx := app.NewContext(0)
	ctx.Request.SetHost("h")
	switch req {
	case 0:
		ctx.Request.SetRequestURI("/g/any")
		ctx.Request.Header.SetMethod(method)
	case 1:
		ctx.Request.SetRequestURI("/nope")
		ctx.Request.Header.SetMethod(method)
	case 2:
		ctx.Request.SetRequestURI("/g/get")
		if method == "GET" {
			method = "POST"
		}
		ctx.Request.Header.SetMethod(method)
	}
	e.ServeHTTP(context.Background(), ctx)
	zz.Cover("reached-assert", true)
	want := append([]int(nil), mw...)
	switch req {
	case 0:
		want = append(want, 150, 200)
	case 1:
		if noRouteAt != 0 {
			want = append(want, 400)
		}
	case 2:
		if noMethodAt != 0 {
			want = append(want, 500)
		}
	}
	same := len(tr) == len(want)
	if same {
		for i := range tr {
			if tr[i] != want[i] {
				same = false
			}
		}
	}
	switch req {
	case 0:
		zz.Assert("any-route-runs-middleware-once-then-handler-for-every-method", same)
	case 1:
		zz.Assert("not-found-runs-engine-middleware-then-custom-handler", same)
	case 2:
		zz.Assert("method-not-allowed-runs-engine-middleware-then-custom-handler", same)
	}
}

func zzTryGET(e *Engine, path string, hs []app.HandlerFunc) (ok bool) {
	defer func() {
		if r := recover(); r != nil {
			ok = false
		}
	}()
	e.GET(path, hs...)
	return true
}

// ZZ_C12_H5: (a) very long chains: registration refuses a chain that cannot be indexed (63
// handlers and more) and a chain that is accepted runs every handler once, in order; (b) request
// sequences with middleware attached between requests: each request runs the engine middleware
// attached before it was served - matched, not-found and method-not-allowed paths alike - so a
// chain built for an earlier request is never reused stale.
func ZZ_C12_H5() {
	if zz.Choose("part", 2) == 0 {
		n := []int{1, 40, 50, 61, 62, 63, 127, 128, 129, 200, 256, 257, 300}[zz.Choose("chainLength", 13)]
		twice := zz.Choose("everyHandlerCallsNextTwice", 2) == 1 // one of the property's seven behaviours, on a long chain
		count := 0
		order := true
		hs := make([]app.HandlerFunc, n-1) // + one engine middleware = n
		for i := range hs {
			idx := i + 1
			hs[i] = func(c context.Context, ctx *app.RequestContext) {
				if count != idx {
					order = false
				}
				count++
				ctx.Next(c)
				if twice {
					ctx.Next(c)
				}
			}
		}
		e := zzNewEngine()
		e.Use(func(c context.Context, ctx *app.RequestContext) {
			if count != 0 {
				order = false
			}
			count++
			ctx.Next(c)
		})
		accepted := true
		if n > 1 {
			accepted = zzTryGET(e, "/long", hs)
		} else {
			e.GET("/long")
		}
		zz.Cover("reached-assert", true)
		zz.Cover("refused", !accepted)
		if n >= 63 {
			zz.Assert("chain-too-long-to-index-is-refused", !accepted)
			return
		}
		zz.Assert("chain-within-the-limit-is-accepted", accepted)
		ctx := app.NewContext(0)
		ctx.Request.SetHost("h")
		ctx.Request.Header.SetMethod("GET")
		ctx.Request.SetRequestURI("/long")
		e.ServeHTTP(context.Background(), ctx)
		zz.Assert("every-handler-of-a-long-chain-runs-once-in-order", count == n && order)
		return
	}
	// (b)
	var tr []int
	mk := func(id int) app.HandlerFunc {
		return func(c context.Context, ctx *app.RequestContext) {
			tr = append(tr, id)
			ctx.Next(c)
		}
	}
	e := zzNewEngine()
	e.Use(mk(100))
	if zz.Choose("customNoMethod", 2) == 1 {
		e.NoMethod(mk(500))
	}
	e.GET("/r", mk(200))
	mw := []int{100}
	okAll := true
	for i := 0; i < 2; i++ {
		if i == 1 {
			e.Use(mk(101)) // attached between the two requests
			mw = append(mw, 101)
		}
		req := zz.Choose("request", 3) // 0 matched, 1 unmatched, 2 wrong method
		ctx := app.NewContext(0)
		ctx.Request.SetHost("h")
		ctx.Request.Header.SetMethod("GET")
		ctx.Request.SetRequestURI("/r")
		switch req {
		case 1:
			ctx.Request.SetRequestURI("/nope")
		case 2:
			ctx.Request.Header.SetMethod("POST")
		}
		tr = tr[:0]
		e.ServeHTTP(context.Background(), ctx)
		// the engine middleware attached so far comes first on every path (the matched route was
		// registered before the second Use, so it keeps the chain it was registered with)
		want := mw
		if req == 0 {
			want = []int{100}
		}
		if len(tr) < len(want) {
			okAll = false
		} else {
			for k := range want {
				if tr[k] != want[k] {
					okAll = false
				}
			}
		}
	}
	zz.Cover("reached-assert", true)
	zz.Assert("every-request-runs-the-engine-middleware-attached-before-it", okAll)
}

// ZZ_C12_H8: the static-file helpers (StaticFile, Static/StaticFS) register a GET and a HEAD
// route: on both, the engine's and the group's middleware is entered exactly once, outermost
// first, before the file handler - observed with an innermost middleware that aborts (as an
// authentication middleware does), so the file handler itself never runs - and the response is
// the aborting middleware's.
func ZZ_C12_H8() {
	helper := zz.Choose("helper", 2) // 0 StaticFile, 1 StaticFS
	method := []string{"GET", "HEAD"}[zz.Choose("method", 2)]
	inGroup := zz.Choose("inGroup", 2) == 1
	var tr []int
	mk := func(id int) app.HandlerFunc {
		return func(c context.Context, ctx *app.RequestContext) {
			tr = append(tr, id)
			ctx.Next(c)
		}
	}
	deny := func(c context.Context, ctx *app.RequestContext) {
		tr = append(tr, 401)
		ctx.AbortWithStatus(401)
	}
	e := zzNewEngine()
	e.Use(mk(100))
	want := []int{100}
	var r IRoutes = e
	prefix := ""
	if inGroup {
		r = e.Group("/g", mk(150), deny)
		prefix = "/g"
		want = append(want, 150, 401)
	} else {
		e.Use(deny)
		want = append(want, 401)
	}
	target := prefix + "/f"
	if helper == 0 {
		r.StaticFile("/f", "/zz/no/such/file")
	} else {
		r.StaticFS("/s", &app.FS{Root: "/zz/no/such/dir"})
		target = prefix + "/s/x.txt"
	}
	ctx := app.NewContext(0)
	ctx.Request.SetHost("h")
	ctx.Request.SetRequestURI(target)
	ctx.Request.Header.SetMethod(method)
	e.ServeHTTP(context.Background(), ctx)
	zz.Cover("reached-assert", true)
	zz.Cover("head-request", method == "HEAD")
	same := len(tr) == len(want)
	if same {
		for i := range tr {
			if tr[i] != want[i] {
				same = false
			}
		}
	}
	zz.Assert("middleware-entered-once-outermost-first-before-the-file-handler", same)
	zz.Assert("aborting-middleware-decides-the-response", ctx.Response.StatusCode() == 401)
}
