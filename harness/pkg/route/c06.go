//go:build verif

package route

import (
	"context"

	zz "github.com/cloudwego/hertz/internal/zzverif"
	"github.com/cloudwego/hertz/pkg/app"
	"github.com/cloudwego/hertz/pkg/common/utils"
	"github.com/cloudwego/hertz/pkg/route/param"
)

// ---- reference matcher (the documented rule: static > :param > *catch-all at the first
// point of difference, with backtracking) ----

type zzCand struct {
	idx  int
	rest string
	vals []string
}

func zzIndexSlash(s string) int {
	for i := 0; i < len(s); i++ {
		if s[i] == '/' {
			return i
		}
	}
	return len(s)
}

func zzRefMatch(cands []zzCand, path string) (int, []string) {
	if len(path) == 0 {
		for _, c := range cands {
			if c.rest == "" {
				return c.idx, c.vals
			}
		}
	}
	if len(path) > 0 {
		// (1) literal byte
		var next []zzCand
		for _, c := range cands {
			if len(c.rest) > 0 && c.rest[0] != ':' && c.rest[0] != '*' && c.rest[0] == path[0] {
				next = append(next, zzCand{c.idx, c.rest[1:], c.vals})
			}
		}
		if len(next) > 0 {
			if i, v := zzRefMatch(next, path[1:]); i >= 0 {
				return i, v
			}
		}
		// (2) named parameter: up to the next '/', needs a non-empty remaining path
		next = nil
		ve := zzIndexSlash(path)
		for _, c := range cands {
			if len(c.rest) > 0 && c.rest[0] == ':' {
				ne := zzIndexSlash(c.rest)
				vals := append(append([]string(nil), c.vals...), path[:ve])
				next = append(next, zzCand{c.idx, c.rest[ne:], vals})
			}
		}
		if len(next) > 0 {
			if i, v := zzRefMatch(next, path[ve:]); i >= 0 {
				return i, v
			}
		}
	}
	// (3) catch-all: the whole remainder (may be empty)
	for _, c := range cands {
		if len(c.rest) > 0 && c.rest[0] == '*' {
			return c.idx, append(append([]string(nil), c.vals...), path)
		}
	}
	return -1, nil
}

// route sets (accepted by registration); drawn from the shapes the property names: static,
// :param, mid-segment params, *catch-all, shared prefixes, trailing-slash variants.
var zzRouteSets = [][]string{
	{"/a", "/ab", "/:p"},
	{"/a/b", "/a/:p", "/a/*w"},
	{"/:p/b", "/a/:q", "/a/b"},
	{"/a/", "/a", "/a/:p"},
	{"/x:p", "/xy", "/:q"},
	{"/a/:p/c", "/a/b/:q", "/a/*w"},
	{"/:p", "/:p/b", "/*w"},
	{"/ab/c", "/a/:p", "/:q/c"},
	{"/a/:p/", "/a/:p", "/a/b/"},
	{"/", "/:p", "/a"},
	{"/a/b/c", "/a/:p/:q", "/:r/b/c", "/*w"},
	{"/ab", "/ac", "/a:p", "/a/*w"},
	{"/u/:id/abc", "/u/:id/ab", "/u/:id"},
	{"/:y/abc", "/:x/", "/s"},
}

// parameter names of a pattern, in order
func zzParamNames(pattern string) []string {
	var out []string
	for i := 0; i < len(pattern); i++ {
		if pattern[i] == ':' || pattern[i] == '*' {
			j := i + 1
			for j < len(pattern) && pattern[j] != '/' {
				j++
			}
			out = append(out, pattern[i+1:j])
			i = j
		}
	}
	return out
}

func zzNoop(c context.Context, ctx *app.RequestContext) {}

func zzPermute(routes []string, k int) []string {
	// k-th permutation (Lehmer code)
	pool := append([]string(nil), routes...)
	var out []string
	for n := len(pool); n > 0; n-- {
		f := 1
		for i := 2; i < n; i++ {
			f *= i
		}
		i := k / f
		k = k % f
		out = append(out, pool[i])
		pool = append(pool[:i], pool[i+1:]...)
	}
	return out
}

func zzFact(n int) int {
	f := 1
	for i := 2; i <= n; i++ {
		f *= i
	}
	return f
}

// ZZ_C06_H1: for every route set of the catalogue in every registration order and every
// request path of <= N bytes (all byte values), the real tree selects the route the reference
// rule selects, with the same parameter values and the registered pattern as full path.
func ZZ_C06_H1() {
	si := zz.Choose("set", len(zzRouteSets))
	set := zzRouteSets[si]
	perm := zz.Choose("order", zzFact(len(set)))
	order := zzPermute(set, perm)
	e := zzNewEngine()
	// engine-level middleware attached by separate Use calls (handler slices get spare capacity)
	for i := 0; i < 3*zz.Choose("engineUses", 2); i++ { // none, or three separate calls (len 3, cap 4)
		e.Use(zzNoop)
	}
	hit := -1
	for _, r := range order {
		// identify the route by its index in the canonical set
		id := -1
		for j, s := range set {
			if s == r {
				id = j
			}
		}
		rid := id
		e.GET(r, func(c context.Context, ctx *app.RequestContext) { hit = rid })
	}
	n := zz.Range("n", 0, zz.Param("N", 4))
	path := "/" + zz.Str("path", n)
	t := e.trees.get("GET")
	ps := make(param.Params, 0, 4)
	v := t.find(path, &ps, false)
	var cands []zzCand
	for j, s := range set {
		cands = append(cands, zzCand{j, s, nil})
	}
	wi, wv := zzRefMatch(cands, path)
	zz.Cover("reached-assert", true)
	zz.Cover("matched-with-param", wi >= 0 && len(wv) > 0)
	zz.Cover("no-match", wi < 0)
	if wi < 0 {
		zz.Assert("no-handler-when-no-pattern-matches", v.handlers == nil)
		return
	}
	zz.Assert("handler-found", v.handlers != nil)
	if v.handlers == nil {
		return
	}
	// the route's own handler is the last one of its chain
	v.handlers[len(v.handlers)-1](context.Background(), nil)
	zz.Assert("route-chosen-by-priority-rule", hit == wi)
	zz.Assert("full-path-is-registered-pattern", v.fullPath == set[wi])
	zz.Assert("param-count", len(ps) == len(wv))
	if len(ps) == len(wv) {
		same := true
		for k := range wv {
			if ps[k].Value != wv[k] {
				same = false
			}
		}
		zz.Assert("param-values-are-matched-substrings", same)
		names := zzParamNames(set[wi])
		keys := len(names) == len(ps)
		if keys {
			for k := range names {
				if ps[k].Key != names[k] {
					keys = false
				}
			}
		}
		zz.Assert("param-keys-are-the-pattern-names", keys)
	}
}

func zzTryRegister(routes []string) (e *Engine, ok bool) {
	defer func() {
		if r := recover(); r != nil {
			e, ok = nil, false
		}
	}()
	e = zzNewEngine()
	for _, r := range routes {
		e.GET(r, func(c context.Context, ctx *app.RequestContext) {})
	}
	return e, true
}

// ZZ_C06_H2: the route strings themselves are symbolic (two routes "/"+ up to R bytes over the
// alphabet {a b / : * p}), so the tree shape is chosen by the solver; route sets that
// registration rejects (panics) are outside the property. Both registration orders must agree
// with the reference rule and with each other for every request path of <= N bytes.
func ZZ_C06_H2() {
	rl := zz.Param("R", 3)
	mk := func(name string) string {
		n := zz.Range(name+"-len", 1, rl)
		b := zz.Bytes(name, n)
		for _, c := range b {
			zz.Assume(c == 'a' || c == 'b' || c == '/' || c == ':' || c == '*' || c == 'p')
		}
		return "/" + string(b)
	}
	r1, r2 := mk("route1"), mk("route2")
	// the pattern that gets registered is the group's absolute path (path.Join semantics:
	// empty segments are removed, a trailing slash is kept)
	g := &zzNewEngine().RouterGroup
	set := []string{g.calculateAbsolutePath(r1), g.calculateAbsolutePath(r2)}
	zz.Assume(set[0] != set[1])
	e1, ok1 := zzTryRegister([]string{r1, r2})
	e2, ok2 := zzTryRegister([]string{r2, r1})
	zz.Assert("acceptance-independent-of-order", ok1 == ok2)
	zz.Assume(ok1 && ok2)
	n := zz.Range("n", 0, zz.Param("N", 3))
	path := "/" + zz.Str("path", n)
	ps1 := make(param.Params, 0, 4)
	ps2 := make(param.Params, 0, 4)
	v1 := e1.trees.get("GET").find(path, &ps1, false)
	v2 := e2.trees.get("GET").find(path, &ps2, false)
	var cands []zzCand
	for j, s := range set {
		cands = append(cands, zzCand{j, s, nil})
	}
	wi, wv := zzRefMatch(cands, path)
	zz.Cover("reached-assert", true)
	zz.Cover("matched", wi >= 0)
	zz.Assert("same-outcome-in-both-orders", (v1.handlers != nil) == (v2.handlers != nil) && v1.fullPath == v2.fullPath && len(ps1) == len(ps2))
	if wi < 0 {
		zz.Assert("no-handler-when-no-pattern-matches", v1.handlers == nil)
		return
	}
	zz.Assert("handler-found", v1.handlers != nil)
	zz.Assert("full-path-is-registered-pattern", v1.fullPath == set[wi])
	zz.Assert("param-count", len(ps1) == len(wv))
	if len(ps1) == len(wv) && len(ps2) == len(wv) {
		same := true
		for k := range wv {
			if ps1[k].Value != wv[k] || ps2[k].Value != wv[k] {
				same = false
			}
		}
		zz.Assert("param-values-are-matched-substrings", same)
	}
}

func zzHexVal(c byte) int {
	switch {
	case c >= '0' && c <= '9':
		return int(c - '0')
	case c >= 'a' && c <= 'f':
		return int(c-'a') + 10
	case c >= 'A' && c <= 'F':
		return int(c-'A') + 10
	}
	return -1
}

// url.QueryUnescape's rule; ok=false on a malformed escape (the router then keeps the raw text)
func zzRefQueryUnescape(s string) (string, bool) {
	var out []byte
	for i := 0; i < len(s); i++ {
		switch s[i] {
		case '%':
			if i+2 >= len(s) && !(i+2 < len(s)) {
				return "", false
			}
			h1, h2 := zzHexVal(s[i+1]), zzHexVal(s[i+2])
			if h1 < 0 || h2 < 0 {
				return "", false
			}
			out = append(out, byte(h1<<4|h2))
			i += 2
		case '+':
			out = append(out, ' ')
		default:
			out = append(out, s[i])
		}
	}
	return string(out), true
}

var zzAlphaH3 = func() (t [256]bool) {
	for _, c := range []byte("ab/%41+xu") {
		t[c] = true
	}
	return
}()

var zzRouteSetsH3 = [][]string{
	{"/:p", "/:p/b", "/*w"},
	{"/a/:p/c", "/a/b/:q", "/a/*w"},
	{"/u/:id", "/u/:id/x", "/:y/z"},
	{"/:x/:y", "/*w"},
}

// ZZ_C06_H3: dispatch through Engine.ServeHTTP (not the bare tree), so that the engine's choice
// of the path to match and of unescaping is part of the check. The request target has a
// symbolic path over an alphabet with escapes ('%', hex digits, '+'). With default options the
// decoded URI path is matched and parameters are its substrings, unchanged; with UseRawPath the
// raw path is matched and (UnescapePathValues) each value is the query-unescaped raw substring.
// In both modes the route is the one the priority rule selects, backtracking included.
func ZZ_C06_H3() {
	set := zzRouteSetsH3[zz.Choose("set", len(zzRouteSetsH3))]
	useRaw := zz.Choose("useRawPath", 2) == 1
	e := zzNewEngine()
	e.options.UnescapePathValues = true // the documented default
	e.options.UseRawPath = useRaw
	removeExtra := zz.Choose("removeExtraSlash", 2) == 1
	e.options.RemoveExtraSlash = removeExtra
	hit := -1
	var got []string
	fullPath := ""
	rewrite := zz.Choose("handlerRewritesURI", 2) == 1
	for j, r := range set {
		rid := j
		e.GET(r, func(c context.Context, ctx *app.RequestContext) {
			hit = rid
			fullPath = ctx.FullPath()
			if rewrite {
				// the handler rewrites the request URI before it looks at the parameters: they
				// are values of their own, not views into the URI's buffers
				ctx.Request.URI().SetPath("/ZZZZZZ")
				_ = ctx.Request.URI().Path()
			}
			for _, p := range ctx.Params {
				got = append(got, p.Value)
			}
		})
	}
	n := zz.Range("n", 1, zz.Param("N", 5))
	tail := zz.Bytes("path", n)
	for _, c := range tail {
		zz.Assume(zzAlphaH3[c]) // one table look-up: no case split in the harness
	}
	ctx := app.NewContext(0)
	ctx.Request.SetHost("h")
	ctx.Request.Header.SetMethod("GET")
	ctx.Request.SetRequestURI("/" + string(tail))
	// the path the engine is documented to match (taken before the handler may rewrite the URI)
	var path string
	if useRaw {
		path = string(ctx.Request.URI().PathOriginal())
	} else {
		path = string(ctx.Request.URI().Path())
	}
	decodedLen := len(ctx.Request.URI().Path())
	e.ServeHTTP(context.Background(), ctx)
	if removeExtra {
		// documented: the path that is matched is the cleaned one (CleanPath is C07's subject)
		path = utils.CleanPath(path)
		zz.Cover("extra-slash-removed", len(path) < len(tail)+1)
	}
	var cands []zzCand
	for j, s := range set {
		cands = append(cands, zzCand{j, s, nil})
	}
	wi, wv := zzRefMatch(cands, path)
	zz.Cover("reached-assert", true)
	zz.Cover("matched-with-param", wi >= 0 && len(wv) > 0)
	zz.Cover("raw-path-with-escape", useRaw && wi >= 0 && len(path) != decodedLen)
	if wi < 0 {
		zz.Assert("no-route-handler-when-no-pattern-matches", hit == -1)
		return
	}
	zz.Assert("route-chosen-by-priority-rule", hit == wi)
	if hit != wi {
		return
	}
	zz.Assert("full-path-is-registered-pattern", fullPath == set[wi])
	zz.Assert("param-count", len(got) == len(wv))
	if len(got) != len(wv) {
		return
	}
	same := true
	for k := range wv {
		want := wv[k]
		if useRaw {
			if u, ok := zzRefQueryUnescape(want); ok {
				want = u
			}
		}
		if got[k] != want {
			same = false
		}
	}
	zz.Assert("param-values-are-the-matched-substrings", same)
}

// ZZ_C06_H4: patterns registered through groups. For group prefixes and relative paths with and
// without trailing slashes (the "trailing-slash variants" of the property), the pattern that is
// registered - and reported as full path - is prefix and relative path joined with exactly one
// slash, keeping a trailing slash exactly when the relative path ends in one; a request for
// the variant with the slash and one without reach only the route registered for it.
func ZZ_C06_H4() {
	prefix := []string{"/a", "/a/", "/a/b"}[zz.Choose("groupPrefix", 3)]
	rel := []string{"", "/", "/x", "/x/", "x"}[zz.Choose("relativePath", 5)]
	// expected absolute pattern
	base := prefix
	for len(base) > 1 && base[len(base)-1] == '/' {
		base = base[:len(base)-1]
	}
	want := base
	r := rel
	for len(r) > 0 && r[0] == '/' {
		r = r[1:]
	}
	trailing := len(rel) > 0 && rel[len(rel)-1] == '/'
	core := r
	for len(core) > 0 && core[len(core)-1] == '/' {
		core = core[:len(core)-1]
	}
	if core != "" {
		want = base + "/" + core
	}
	if rel == "" {
		want = prefix // an empty relative path registers the group's own path as it is
	} else if trailing {
		want += "/"
	}
	e := zzNewEngine()
	g := e.Group(prefix)
	hit := ""
	g.GET(rel, func(c context.Context, ctx *app.RequestContext) { hit = ctx.FullPath() })
	// the request path is the expected pattern itself, or its trailing-slash twin
	twin := want + "/"
	if want[len(want)-1] == '/' && len(want) > 1 {
		twin = want[:len(want)-1]
	}
	target := want
	if zz.Choose("requestTwin", 2) == 1 {
		target = twin
	}
	ctx := app.NewContext(0)
	ctx.Request.SetHost("h")
	ctx.Request.Header.SetMethod("GET")
	ctx.Request.SetRequestURI(target)
	e.ServeHTTP(context.Background(), ctx)
	zz.Cover("reached-assert", true)
	if target == want {
		zz.Assert("registered-pattern-is-prefix-joined-with-relative-path", hit == want)
	} else {
		zz.Assert("trailing-slash-twin-does-not-run-the-handler", hit == "")
	}
}
