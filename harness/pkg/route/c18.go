//go:build verif

package route

import (
	"context"
	"errors"
	"net"
	"time"

	"github.com/cloudwego/hertz/pkg/app"
	"github.com/cloudwego/hertz/pkg/app/server/registry"
	"github.com/cloudwego/hertz/pkg/common/tracer/stats"
	"github.com/cloudwego/hertz/pkg/protocol"
	"github.com/cloudwego/hertz/pkg/protocol/suite"

	zz "github.com/cloudwego/hertz/internal/zzverif"
	"github.com/cloudwego/hertz/pkg/network"
)

type zzTransport struct {
	shutdowns   int
	closes      int
	hadDeadline bool
	shutdownAt  time.Time // when the engine asked the transport to close its listener and drain
}

func (t *zzTransport) Close() error { t.closes++; return nil }
func (t *zzTransport) Shutdown(ctx context.Context) error {
	t.shutdowns++
	t.shutdownAt = time.Now()
	_, t.hadDeadline = ctx.Deadline()
	return ctx.Err()
}
func (t *zzTransport) ListenAndServe(onData network.OnData) error {
	return nil
}
func (t *zzTransport) Listener() net.Listener { return nil }

// ZZ_C18_H2: Shutdown status machine from every status value: a server that is not running
// reports an error without touching the transport; a running one flips to shutdown exactly once
// and shuts the transport down exactly once; a second Shutdown reports an error.
func ZZ_C18_H2() {
	e := zzNewEngine()
	tr := &zzTransport{}
	e.transport = tr
	st := zz.Int32("status")
	zz.Assume(st >= 0 && st <= 3)
	e.status = uint32(st)
	hookRan := 0
	e.OnShutdown = append(e.OnShutdown, func(ctx context.Context) { hookRan++ })
	err := e.Shutdown(context.Background())
	zz.Cover("reached-assert", true)
	if uint32(st) != statusRunning {
		zz.Cover("not-running", true)
		zz.Assert("not-running-reports-error", err == errStatusNotRunning)
		zz.Assert("not-running-leaves-transport-alone", tr.shutdowns == 0 && hookRan == 0)
		zz.Assert("status-unchanged", e.status == uint32(st))
		return
	}
	zz.Cover("running", true)
	zz.Assert("running-shutdown-succeeds", err == nil)
	zz.Assert("status-becomes-shutdown", e.status == statusShutdown)
	zz.Assert("transport-shut-down-once", tr.shutdowns == 1)
	zz.Assert("transport-wait-is-bounded-by-the-exit-wait-deadline", tr.hadDeadline)
	zz.Assert("hooks-ran-once", hookRan == 1)
	err2 := e.Shutdown(context.Background())
	zz.Assert("second-shutdown-reports-error", err2 == errStatusNotRunning)
	zz.Assert("second-shutdown-does-not-touch-transport", tr.shutdowns == 1 && hookRan == 1)
}

type zzRegistry struct {
	fail  bool
	calls int
}

var errZZRegistry = errors.New("zz: deregister failed")
var errZZTransport = errors.New("zz: transport shutdown failed")

func (r *zzRegistry) Register(info *registry.Info) error { return nil }
func (r *zzRegistry) Deregister(info *registry.Info) error {
	r.calls++
	if r.fail {
		return errZZRegistry
	}
	return nil
}

type zzFailingTransport struct {
	zzTransport
	fail bool
}

func (t *zzFailingTransport) Shutdown(ctx context.Context) error {
	t.zzTransport.Shutdown(ctx) //nolint:errcheck
	if t.fail {
		return errZZTransport
	}
	return ctx.Err()
}

// ZZ_C18_H3: "shutdown hooks run" on every exit of Shutdown. The hook goroutine is scheduled as
// late as possible (it only runs once Shutdown blocks waiting for it), the service registry's
// Deregister and the transport's Shutdown succeed or fail: in every combination all hooks have
// run by the time Shutdown returns (the exit wait time is far away), each exactly once, and a
// failing step's error is reported.
func ZZ_C18_H3() {
	e := zzNewEngine()
	tr := &zzFailingTransport{fail: zz.Choose("transportFails", 2) == 1}
	e.transport = tr
	useRegistry := zz.Choose("registry", 3) // 0 none, 1 ok, 2 failing
	reg := &zzRegistry{fail: useRegistry == 2}
	if useRegistry > 0 {
		e.options.Registry = reg
	}
	e.status = statusRunning
	nhooks := zz.Range("hooks", 1, 3)
	slowHooks := zz.Choose("hooksTakeTwoSeconds", 2) == 1
	ran := make([]int, nhooks)
	for i := 0; i < nhooks; i++ {
		i := i
		e.OnShutdown = append(e.OnShutdown, func(ctx context.Context) {
			if slowHooks {
				zz.SlowFor(2000)
			} else {
				zz.Slow()
			}
			ran[i]++
		})
	}
	t0 := time.Now()
	err := e.Shutdown(context.Background())
	zz.Cover("reached-assert", true)
	if tr.shutdowns > 0 {
		// "no new connection is accepted afterwards": the listener is closed when shutdown
		// begins, not once the hooks - however slow - are through
		zz.Assert("listener-closed-without-waiting-for-slow-hooks", tr.shutdownAt.Sub(t0) < time.Second)
	}
	zz.Cover("early-exit", err != nil)
	all := true
	for _, n := range ran {
		if n != 1 {
			all = false
		}
	}
	zz.Assert("every-hook-ran-exactly-once-before-shutdown-returned", all)
	zz.Assert("status-is-shutdown", e.status == statusShutdown)
	if useRegistry == 2 {
		zz.Assert("deregister-error-reported", err == errZZRegistry)
	} else if tr.fail {
		zz.Assert("transport-error-reported", err == errZZTransport)
		zz.Assert("deregistered-first", useRegistry == 0 || reg.calls == 1)
	} else {
		zz.Assert("clean-shutdown", err == nil && tr.shutdowns == 1)
	}
}

type zzFactory struct{}

func (zzFactory) New(core suite.Core) (protocol.Server, error) { return zzProtoServer{}, nil }

type zzProtoServer struct{}

func (zzProtoServer) Serve(c context.Context, conn network.Conn) error { return nil }

var errZZOnRun = errors.New("zz: OnRun hook failed")

// ZZ_C18_H4: the status machine around Run. An OnRun hook fails or not; Run with a transport
// whose ListenAndServe returns at once. A server whose Run failed in a hook was never running:
// a Shutdown afterwards reports "not running" and fires no shutdown hook; after a Run that
// served and returned, Shutdown reports an error as well (the server is closed).
func ZZ_C18_H4() {
	e := zzNewEngine()
	e.protocolSuite = suite.New()
	e.AddProtocol(suite.HTTP1, zzFactory{})
	tr := &zzTransport{}
	e.transport = tr
	hookFails := zz.Choose("onRunHookFails", 2) == 1
	ranRun := 0
	e.OnRun = append(e.OnRun, func(ctx context.Context) error {
		ranRun++
		if hookFails {
			return errZZOnRun
		}
		return nil
	})
	shut := 0
	e.OnShutdown = append(e.OnShutdown, func(ctx context.Context) { shut++ })
	err := e.Run()
	zz.Cover("reached-assert", true)
	zz.Cover("hook-failed", hookFails)
	zz.Assert("run-hook-ran-once", ranRun == 1)
	if hookFails {
		zz.Assert("run-reports-the-hook-error", err == errZZOnRun)
		zz.Assert("server-that-never-ran-is-not-running", !e.IsRunning())
	} else {
		zz.Assert("run-returns-after-serving", err == nil)
	}
	err2 := e.Shutdown(context.Background())
	zz.Assert("shutdown-of-a-server-that-is-not-running-reports-an-error", err2 != nil)
	zz.Assert("no-shutdown-hook-on-a-server-that-is-not-running", shut == 0 && tr.shutdowns == 0)
}

type zzNopTracer struct{}

func (zzNopTracer) Start(ctx context.Context, c *app.RequestContext) context.Context { return ctx }
func (zzNopTracer) Finish(ctx context.Context, c *app.RequestContext)                {}

// ZZ_C19_H2: the engine's trace set-up. Start/finish pairs are delivered for every handled
// request whenever a tracer is registered - the trace level only selects which stage events are
// recorded - and never when none is: enableTrace after initTrace is exactly "a tracer is
// registered", at every level, and the level is passed through unchanged.
func ZZ_C19_H2() {
	e := zzNewEngine()
	e.enableTrace = true // as NewEngine sets it
	withTracer := zz.Choose("tracerRegistered", 2) == 1
	if withTracer {
		e.options.Tracers = append(e.options.Tracers, zzNopTracer{})
	}
	lv := []stats.Level{stats.LevelDisabled, stats.LevelBase, stats.LevelDetailed}[zz.Choose("level", 3)]
	explicit := zz.Choose("levelConfigured", 2) == 1
	if explicit {
		e.options.TraceLevel = lv
	}
	got := initTrace(e)
	zz.Cover("reached-assert", true)
	zz.Assert("tracing-enabled-iff-a-tracer-is-registered", e.enableTrace == withTracer)
	if explicit {
		zz.Assert("configured-level-is-used", got == lv)
	} else {
		zz.Assert("default-level-is-detailed", got == stats.LevelDetailed)
	}
	zz.Assert("tracer-reaches-the-controller", e.tracerCtl.HasTracer() == withTracer)
}

type zzDrainingTransport struct {
	zzTransport
	drainMs int // < 0: connections never finish, the drain lasts until the context is done
}

func (t *zzDrainingTransport) Shutdown(ctx context.Context) error {
	t.zzTransport.Shutdown(ctx) //nolint:errcheck
	if t.drainMs < 0 {
		<-ctx.Done()
		return ctx.Err()
	}
	zz.SlowFor(t.drainMs)
	return ctx.Err()
}

// ZZ_C18_H5: "the call returns no later than the configured exit wait time plus slack" on the
// modelled clock. The exit wait is one second; the transport's drain takes 0, 400 or 800 ms of
// it or lasts until the deadline (connections that never finish); the shutdown hook is fast,
// returns when its context is done, or never returns (beyond the deadline). context.WithTimeout
// runs from SSA and its time.AfterFunc timer fires at its deadline on the modelled clock; a
// hook that never returns leaves its goroutine blocked for good. The caller's context is
// without deadline, or already cancelled.
func ZZ_C18_H5() {
	e := zzNewEngine()
	e.options.ExitWaitTimeout = time.Second
	drain := zz.Choose("drain", 4) // 0, 400, 800 ms, 3: until the deadline
	tr := &zzDrainingTransport{drainMs: drain * 400}
	if drain == 3 {
		tr.drainMs = -1
	}
	e.transport = tr
	e.status = statusRunning
	hookKind := zz.Choose("hook", 3) // 0 fast, 1 until its context is done, 2 never returns
	callerCancelled := zz.Choose("callerContextCancelled", 2) == 1
	never := make(chan struct{})
	started := 0
	e.OnShutdown = append(e.OnShutdown, func(ctx context.Context) {
		started++
		if hookKind >= 1 {
			<-ctx.Done()
		}
		if hookKind == 2 {
			<-never
		}
	})
	ctx := context.Background()
	if callerCancelled {
		c, cancel := context.WithCancel(ctx)
		cancel()
		ctx = c
	}
	t0 := time.Now()
	e.Shutdown(ctx) //nolint:errcheck
	took := time.Since(t0)
	zz.Cover("reached-assert", true)
	zz.Cover("hook-beyond-the-deadline", hookKind == 2 && !callerCancelled)
	zz.Cover("drain-until-the-deadline", drain == 3 && !callerCancelled)
	if !callerCancelled {
		// with a caller context that is already cancelled there is nothing to wait for: the
		// hook goroutine is launched but need not have been scheduled when Shutdown returns
		zz.Assert("hook-was-started", started == 1)
	}
	zz.Assert("transport-asked-to-shut-down-once", tr.shutdowns == 1)
	zz.Assert("shutdown-returns-no-later-than-the-exit-wait-plus-slack", took < time.Second+300*time.Millisecond)
	if hookKind == 0 && drain < 3 && !callerCancelled {
		zz.Assert("nothing-to-wait-for-returns-after-the-drain", took < time.Duration(drain*400+300)*time.Millisecond)
	}
}
