//go:build verif

package route

import (
	"context"
	"net"

	zz "github.com/cloudwego/hertz/internal/zzverif"
	"github.com/cloudwego/hertz/pkg/network"
)

type zzTransport struct {
	shutdowns   int
	closes      int
	hadDeadline bool
}

func (t *zzTransport) Close() error                       { t.closes++; return nil }
func (t *zzTransport) Shutdown(ctx context.Context) error {
	t.shutdowns++
	_, t.hadDeadline = ctx.Deadline()
	return ctx.Err()
}
func (t *zzTransport) ListenAndServe(onData network.OnData) error {
	return nil
}
func (t *zzTransport) Listener() net.Listener { return nil }

// ZZ_C18_H2: Shutdown status machine from every status value: a server that is not running
// reports an error without touching the transport; a running one flips to shutdown exactly once
// and shuts the transport down exactly once; a second Shutdown reports an error.
func ZZ_C18_H2() {
	e := zzNewEngine()
	tr := &zzTransport{}
	e.transport = tr
	st := zz.Int32("status")
	zz.Assume(st >= 0 && st <= 3)
	e.status = uint32(st)
	hookRan := 0
	e.OnShutdown = append(e.OnShutdown, func(ctx context.Context) { hookRan++ })
	err := e.Shutdown(context.Background())
	zz.Cover("reached-assert", true)
	if uint32(st) != statusRunning {
		zz.Cover("not-running", true)
		zz.Assert("not-running-reports-error", err == errStatusNotRunning)
		zz.Assert("not-running-leaves-transport-alone", tr.shutdowns == 0 && hookRan == 0)
		zz.Assert("status-unchanged", e.status == uint32(st))
		return
	}
	zz.Cover("running", true)
	zz.Assert("running-shutdown-succeeds", err == nil)
	zz.Assert("status-becomes-shutdown", e.status == statusShutdown)
	zz.Assert("transport-shut-down-once", tr.shutdowns == 1)
	zz.Assert("transport-wait-is-bounded-by-the-exit-wait-deadline", tr.hadDeadline)
	zz.Assert("hooks-ran-once", hookRan == 1)
	err2 := e.Shutdown(context.Background())
	zz.Assert("second-shutdown-reports-error", err2 == errStatusNotRunning)
	zz.Assert("second-shutdown-does-not-touch-transport", tr.shutdowns == 1 && hookRan == 1)
}
