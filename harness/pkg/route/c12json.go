//go:build verif

package route

import (
	"context"
	"errors"

	zz "github.com/cloudwego/hertz/internal/zzverif"
	"github.com/cloudwego/hertz/pkg/app"
	"github.com/cloudwego/hertz/pkg/app/server/render"
)

var errZZUnmarshalable = errors.New("zz: payload cannot be marshalled")

// zzMarshal is installed through hertz's own render.ResetJSONMarshal: the environment (a JSON
// library) either produces bytes or refuses the payload; which of the two is the payload's kind.
func zzMarshal(v interface{}) ([]byte, error) {
	if _, bad := v.(chan int); bad {
		return nil, errZZUnmarshalable
	}
	return []byte(`"ok"`), nil
}

// ZZ_C12_H7: the aborting helpers that render a body (AbortWithStatusJSON, AbortWithMsg,
// AbortWithError) in chains with a middleware that recovers the panics of later handlers
// without aborting itself (a custom recovery handler). The JSON payload may be one the marshaler
// refuses, so that rendering panics inside the aborting helper: once a handler has called an
// aborting helper, no handler that was not yet entered runs - whatever rendering did.
func ZZ_C12_H7() {
	render.ResetJSONMarshal(zzMarshal)
	n := zz.Range("n", 2, zz.Param("N", 4))
	beh := zz.Bytes("behaviour", n)
	for _, b := range beh {
		zz.Assume(b < 7)
	}
	var tr []zzEvent
	chain := make(app.HandlersChain, n)
	for i := 0; i < n; i++ {
		id := i
		chain[i] = func(c context.Context, ctx *app.RequestContext) {
			tr = append(tr, zzEvent{'E', id})
			switch beh[id] {
			case 0: // plain return
			case 1: // Next, then code after Next
				ctx.Next(c)
			case 2: // recover what later handlers panic with, go on
				func() {
					defer func() {
						if r := recover(); r != nil {
							tr = append(tr, zzEvent{'P', id})
						}
					}()
					ctx.Next(c)
				}()
			case 3:
				tr = append(tr, zzEvent{'A', id})
				ctx.AbortWithStatusJSON(403, "forbidden")
			case 4:
				tr = append(tr, zzEvent{'A', id})
				ctx.AbortWithStatusJSON(403, make(chan int)) // rendering panics
			case 5:
				tr = append(tr, zzEvent{'A', id})
				ctx.AbortWithMsg("no", 403)
			case 6:
				tr = append(tr, zzEvent{'A', id})
				ctx.AbortWithError(500, errZZUnmarshalable) //nolint:errcheck
			}
		}
	}
	ctx := app.NewContext(0)
	ctx.SetHandlers(chain)
	func() {
		defer func() { recover() }() // a panic nobody recovered ends the request
		ctx.Next(context.Background())
	}()
	zz.Cover("reached-assert", true)
	aborted := false
	enteredAfterAbort := false
	panicRecovered := false
	for _, ev := range tr {
		switch ev.kind {
		case 'A':
			aborted = true
		case 'P':
			panicRecovered = true
		case 'E':
			if aborted {
				enteredAfterAbort = true
			}
		}
	}
	zz.Cover("render-panic-recovered-by-an-outer-middleware", panicRecovered)
	zz.Assert("first-handler-entered", len(tr) > 0 && tr[0].kind == 'E' && tr[0].id == 0)
	zz.Assert("nothing-entered-after-an-aborting-helper-was-called", !enteredAfterAbort)
	if aborted {
		zz.Assert("context-reports-aborted", ctx.IsAborted())
	}
}
