//go:build verif

package utils

import (
	"path"

	zz "github.com/cloudwego/hertz/internal/zzverif"
)

// reference for CleanPath: Go's own path.Clean on "/"+p plus CleanPath's documented
// trailing-slash rule.
func zzRefClean(p string) string {
	if p == "" {
		return "/"
	}
	q := "/" + p
	c := path.Clean(q)
	n := len(p)
	trailing := (n > 1 && p[n-1] == '/') || (len(q) >= 2 && q[len(q)-2] == '/' && q[len(q)-1] == '.')
	if trailing && c != "/" {
		c += "/"
	}
	return c
}

func zzCleanContained(p string) (startsSlash, noDots, noEmptyInner bool) {
	startsSlash = len(p) > 0 && p[0] == '/'
	noDots, noEmptyInner = true, true
	if !startsSlash {
		return
	}
	start := 1
	for i := 1; i <= len(p); i++ {
		if i == len(p) || p[i] == '/' {
			seg := p[start:i]
			last := i == len(p)
			if (len(seg) == 2 && seg[0] == '.' && seg[1] == '.') || (len(seg) == 1 && seg[0] == '.') {
				noDots = false
			}
			if !last && len(seg) == 0 {
				noEmptyInner = false
			}
			start = i + 1
		}
	}
	return
}

// ZZ_C07_H4: CleanPath containment and agreement with path.Clean (stdlib executed as oracle).
func ZZ_C07_H4() {
	n := zz.Range("n", 0, zz.Param("N", 7))
	p := zz.Str("p", n)
	got := CleanPath(p)
	zz.Observe("got", got)
	want := zzRefClean(p)
	a, b, c := zzCleanContained(got)
	zz.Cover("reached-assert", true)
	zz.Cover("shortened", len(got)+3 <= len(p))
	zz.Assert("starts-with-slash", a)
	zz.Assert("no-dot-or-dotdot-segment", b)
	zz.Assert("no-empty-inner-segment", c)
	zz.Assert("equals-path.Clean-reference", got == want)
}
