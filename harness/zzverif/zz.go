//go:build verif

// Package zzverif holds the intrinsics that verification harnesses use.
//
// Under the symbolic executor (/verif/engine) every function here is intercepted by name:
// Byte/Bytes/Int/... return fresh symbolic values, Assume/Assert/Cover talk to the solver.
// Compiled natively (go test -tags verif -overlay ...) the same functions replay one concrete
// model written by the executor, so a counterexample is confirmed against the real build.
package zzverif

import (
	"encoding/json"
	"fmt"
	"os"
	"testing"
	"time"
)

type input struct {
	Name  string  `json:"name"`
	Kind  string  `json:"kind"`
	Bytes []int   `json:"bytes"`
	Int   int64   `json:"int"`
	Ints  []int64 `json:"ints"`
}

type replayFile struct {
	Harness string         `json:"harness"`
	Params  map[string]int `json:"params"`
	Inputs  []input        `json:"inputs"`
}

var (
	rf      replayFile
	pos     int
	failed  []string
	skipped bool
)

type assumeFailed struct{}

func next(kind string) input {
	if pos >= len(rf.Inputs) {
		// inputs beyond the recorded ones are unconstrained: use zero
		pos++
		return input{Kind: kind}
	}
	in := rf.Inputs[pos]
	pos++
	return in
}

func Byte(name string) byte   { return byte(next("byte").Int) }
func Bool(name string) bool   { return next("bool").Int != 0 }
func Int(name string) int     { return int(next("int").Int) }
func Int64(name string) int64 { return next("int").Int }
func Uint64(name string) uint64 {
	return uint64(next("int").Int)
}
func Int32(name string) int32 { return int32(next("int").Int) }
func Int8(name string) int8   { return int8(next("int").Int) }

func Bytes(name string, n int) []byte {
	in := next("bytes")
	b := make([]byte, n)
	for i := range b {
		if i < len(in.Bytes) {
			b[i] = byte(in.Bytes[i])
		}
	}
	return b
}

func Str(name string, n int) string { return string(Bytes(name, n)) }

func Range(name string, lo, hi int) int {
	v := int(next("choose").Int)
	if v < lo || v > hi {
		v = lo
	}
	return v
}

func Choose(name string, k int) int { return Range(name, 0, k-1) }

func Param(name string, def int) int {
	if v, ok := rf.Params[name]; ok {
		return v
	}
	return def
}

func Assume(c bool) {
	if !c {
		panic(assumeFailed{})
	}
}

func Assert(name string, c bool) {
	if !c {
		failed = append(failed, name)
		fmt.Printf("ZZ-ASSERT-FAIL %s\n", name)
	}
}

// Slow marks code that takes its time (see the engine's intrinsic of the same name).
func Slow() { time.Sleep(30 * time.Millisecond) }

// SlowFor is Slow with a chosen duration (the engine advances its modelled clock by the same).
func SlowFor(ms int) { time.Sleep(time.Duration(ms) * time.Millisecond) }

func Cover(name string, c bool) {
	if c {
		fmt.Printf("ZZ-COVER %s\n", name)
	}
}

func Known(name string, c bool) bool {
	if c {
		fmt.Printf("ZZ-KNOWN %s\n", name)
	}
	return c
}

func Observe(name string, v interface{}) {
	switch x := v.(type) {
	case []byte:
		fmt.Printf("ZZ-OBS %s %x\n", name, x)
	case string:
		fmt.Printf("ZZ-OBS %s %x\n", name, x)
	default:
		fmt.Printf("ZZ-OBS %s %v\n", name, x)
	}
}

// Symbolic reports whether the harness runs under the symbolic executor.
func Symbolic() bool { return false }

func Note(s string) { fmt.Printf("ZZ-NOTE %s\n", s) }

// RunReplay runs the harness named in $ZZ_REPLAY on the recorded model, or every case of the
// batch file named in $ZZ_REPLAY_BATCH.
func RunReplay(t *testing.T, funcs map[string]func()) {
	if bp := os.Getenv("ZZ_REPLAY_BATCH"); bp != "" {
		b, err := os.ReadFile(bp)
		if err != nil {
			t.Fatal(err)
		}
		var batch struct {
			Cases []replayFile `json:"cases"`
		}
		if err := json.Unmarshal(b, &batch); err != nil {
			t.Fatal(err)
		}
		for _, c := range batch.Cases {
			rf = c
			pos = 0
			failed = nil
			runOne(t, funcs)
		}
		return
	}
	path := os.Getenv("ZZ_REPLAY")
	if path == "" {
		t.Skip("ZZ_REPLAY not set")
	}
	b, err := os.ReadFile(path)
	if err != nil {
		t.Fatal(err)
	}
	if err := json.Unmarshal(b, &rf); err != nil {
		t.Fatal(err)
	}
	runOne(t, funcs)
}

func runOne(t *testing.T, funcs map[string]func()) {
	f := funcs[rf.Harness]
	if f == nil {
		t.Fatalf("unknown harness %s", rf.Harness)
	}
	fmt.Printf("ZZ-REPLAY-START %s\n", rf.Harness)
	func() {
		defer func() {
			if os.Getenv("ZZ_NORECOVER") != "" {
				return
			}
			if r := recover(); r != nil {
				if _, ok := r.(assumeFailed); ok {
					fmt.Printf("ZZ-ASSUME-FAILED\n")
					return
				}
				fmt.Printf("ZZ-PANIC %v\n", r)
			}
		}()
		f()
	}()
	fmt.Printf("ZZ-REPLAY-END failed=%d\n", len(failed))
}
