//go:build verif

package zzverif

import (
	"io"
	"io/fs"
	"os"
	"sort"
	"syscall"
	"time"
)

// A small file system for harnesses of code that opens files (pkg/app/fs.go).
//
// Natively FSRoot/FSAdd create a real directory tree under a temporary directory and the code
// under test uses the real os package. Under the symbolic executor the os entry points the code
// under test uses (os.Open, os.Stat, (*os.File).Stat/Read/ReadAt/Seek/Close/Name/Readdir, and
// the os.MkdirTemp/MkdirAll/WriteFile calls made below) are redirected, by name, to the ZZ*
// functions of this file, which are executed from SSA like any other Go code: an in-memory tree
// with the os package's observable contract (ENOENT for a missing path, io.EOF at the end,
// independent offsets per open handle, use after Close fails).

type memNode struct {
	path string
	data []byte
	dir  bool
}

type memHandle struct {
	f      *os.File
	n      *memNode
	pos    int64
	closed bool
}

var (
	memNodes   []*memNode
	memHandles []*memHandle
	// FSOpens counts successful opens, FSCloses the closes of open handles (leak accounting).
	FSOpens, FSCloses int
)

var memModTime = time.Unix(1600000000, 0).UTC()

// FSRoot starts an empty tree and returns its root directory (no trailing slash).
func FSRoot() string {
	memNodes, memHandles, FSOpens, FSCloses = nil, nil, 0, 0
	dir, err := os.MkdirTemp("", "zzfs")
	if err != nil {
		panic(err)
	}
	return dir
}

// FSAdd creates the file path (absolute, below or beside the root) with the given content,
// and its parent directories.
func FSAdd(path string, data []byte) {
	for i := len(path) - 1; i > 0; i-- {
		if path[i] == '/' {
			if err := os.MkdirAll(path[:i], 0o755); err != nil {
				panic(err)
			}
			break
		}
	}
	if err := os.WriteFile(path, data, 0o644); err != nil {
		panic(err)
	}
	// every file of the tree has the same modification time
	if err := os.Chtimes(path, memModTime, memModTime); err != nil {
		panic(err)
	}
}

// FSDone removes the tree (native runs).
func FSDone(root string) { os.RemoveAll(root) }

func memLookup(path string) *memNode {
	for len(path) > 1 && path[len(path)-1] == '/' {
		path = path[:len(path)-1]
	}
	for _, n := range memNodes {
		if n.path == path {
			return n
		}
	}
	return nil
}

func memHandleOf(f *os.File) *memHandle {
	for _, h := range memHandles {
		if h.f == f {
			return h
		}
	}
	return nil
}

type memInfo struct {
	name string
	size int64
	dir  bool
}

func (i memInfo) Name() string { return i.name }
func (i memInfo) Size() int64  { return i.size }
func (i memInfo) Mode() fs.FileMode {
	if i.dir {
		return fs.ModeDir | 0o755
	}
	return 0o644
}
func (i memInfo) ModTime() time.Time { return memModTime }
func (i memInfo) IsDir() bool        { return i.dir }
func (i memInfo) Sys() interface{}   { return nil }

func memInfoOf(n *memNode) memInfo {
	name := n.path
	for i := len(name) - 1; i >= 0; i-- {
		if name[i] == '/' {
			name = name[i+1:]
			break
		}
	}
	return memInfo{name: name, size: int64(len(n.data)), dir: n.dir}
}

func ZZMkdirTemp(dir, pattern string) (string, error) {
	memNodes = append(memNodes, &memNode{path: "/zzfs", dir: true})
	return "/zzfs", nil
}

func ZZMkdirAll(path string, perm os.FileMode) error {
	for i := 1; i <= len(path); i++ {
		if i == len(path) || path[i] == '/' {
			if memLookup(path[:i]) == nil {
				memNodes = append(memNodes, &memNode{path: path[:i], dir: true})
			}
		}
	}
	return nil
}

func ZZWriteFile(name string, data []byte, perm os.FileMode) error {
	if n := memLookup(name); n != nil {
		n.data = append([]byte(nil), data...)
		return nil
	}
	memNodes = append(memNodes, &memNode{path: name, data: append([]byte(nil), data...)})
	return nil
}

func ZZRemoveAll(path string) error { return nil }

func ZZChtimes(name string, atime, mtime time.Time) error { return nil }

// memMissing is the errno of a path that does not resolve: ENOTDIR when it descends through a
// regular file, ENOENT otherwise.
func memMissing(path string) syscall.Errno {
	for i := 1; i < len(path); i++ {
		if path[i] == '/' {
			if n := memLookup(path[:i]); n != nil && !n.dir {
				return syscall.ENOTDIR
			}
		}
	}
	return syscall.ENOENT
}

func ZZOsOpen(name string) (*os.File, error) {
	n := memLookup(name)
	if n == nil {
		return nil, &fs.PathError{Op: "open", Path: name, Err: memMissing(name)}
	}
	f := new(os.File)
	memHandles = append(memHandles, &memHandle{f: f, n: n})
	FSOpens++
	return f, nil
}

func ZZOsStat(name string) (os.FileInfo, error) {
	n := memLookup(name)
	if n == nil {
		return nil, &fs.PathError{Op: "stat", Path: name, Err: memMissing(name)}
	}
	return memInfoOf(n), nil
}

func memOpen(f *os.File, op string) (*memHandle, error) {
	h := memHandleOf(f)
	if h == nil {
		return nil, os.ErrInvalid
	}
	if h.closed {
		return nil, &fs.PathError{Op: op, Path: h.n.path, Err: os.ErrClosed}
	}
	return h, nil
}

func ZZFileStat(f *os.File) (os.FileInfo, error) {
	h, err := memOpen(f, "stat")
	if err != nil {
		return nil, err
	}
	return memInfoOf(h.n), nil
}

func ZZFileName(f *os.File) string {
	if h := memHandleOf(f); h != nil {
		return h.n.path
	}
	return ""
}

func ZZFileClose(f *os.File) error {
	h, err := memOpen(f, "close")
	if err != nil {
		return err
	}
	h.closed = true
	FSCloses++
	return nil
}

func ZZFileRead(f *os.File, p []byte) (int, error) {
	h, err := memOpen(f, "read")
	if err != nil {
		return 0, err
	}
	if h.n.dir {
		return 0, &fs.PathError{Op: "read", Path: h.n.path, Err: syscall.EISDIR}
	}
	if len(p) == 0 {
		return 0, nil
	}
	if h.pos >= int64(len(h.n.data)) {
		return 0, io.EOF
	}
	n := copy(p, h.n.data[h.pos:])
	h.pos += int64(n)
	return n, nil
}

func ZZFileReadAt(f *os.File, p []byte, off int64) (int, error) {
	h, err := memOpen(f, "read")
	if err != nil {
		return 0, err
	}
	if off < 0 {
		return 0, &fs.PathError{Op: "readat", Path: h.n.path, Err: os.ErrInvalid}
	}
	if off >= int64(len(h.n.data)) {
		if len(p) == 0 {
			return 0, nil
		}
		return 0, io.EOF
	}
	n := copy(p, h.n.data[off:])
	if n < len(p) {
		return n, io.EOF
	}
	return n, nil
}

func ZZFileSeek(f *os.File, offset int64, whence int) (int64, error) {
	h, err := memOpen(f, "seek")
	if err != nil {
		return 0, err
	}
	switch whence {
	case io.SeekStart:
	case io.SeekCurrent:
		offset += h.pos
	case io.SeekEnd:
		offset += int64(len(h.n.data))
	default:
		return 0, &fs.PathError{Op: "seek", Path: h.n.path, Err: syscall.EINVAL}
	}
	if offset < 0 {
		return 0, &fs.PathError{Op: "seek", Path: h.n.path, Err: syscall.EINVAL}
	}
	h.pos = offset
	return offset, nil
}

func ZZFileReaddir(f *os.File, count int) ([]os.FileInfo, error) {
	h, err := memOpen(f, "readdir")
	if err != nil {
		return nil, err
	}
	if !h.n.dir {
		return nil, &fs.PathError{Op: "readdirent", Path: h.n.path, Err: syscall.ENOTDIR}
	}
	var names []string
	byName := map[string]*memNode{}
	prefix := h.n.path + "/"
	for _, n := range memNodes {
		if len(n.path) > len(prefix) && n.path[:len(prefix)] == prefix {
			rest := n.path[len(prefix):]
			direct := true
			for i := 0; i < len(rest); i++ {
				if rest[i] == '/' {
					direct = false
				}
			}
			if direct {
				names = append(names, rest)
				byName[rest] = n
			}
		}
	}
	sort.Strings(names)
	out := make([]os.FileInfo, 0, len(names))
	for _, nm := range names {
		out = append(out, memInfoOf(byName[nm]))
	}
	return out, nil
}

func memErrno(err error) (syscall.Errno, bool) {
	if pe, ok := err.(*fs.PathError); ok {
		err = pe.Err
	}
	en, ok := err.(syscall.Errno)
	return en, ok
}

// os.IsNotExist / IsPermission / IsExist on the errors the tree above produces.
func ZZIsNotExist(err error) bool {
	en, ok := memErrno(err)
	return ok && en == syscall.ENOENT
}

func ZZIsPermission(err error) bool {
	en, ok := memErrno(err)
	return ok && (en == syscall.EACCES || en == syscall.EPERM)
}

func ZZIsExist(err error) bool {
	en, ok := memErrno(err)
	return ok && (en == syscall.EEXIST || en == syscall.ENOTEMPTY)
}
