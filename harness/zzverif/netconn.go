//go:build verif

package zzverif

import (
	"errors"
	"io"
	"net"
	"time"
)

// NetConn is the harness's net.Conn: the peer's bytes are In, delivered in fragments whose
// sizes come from Frag (nil = everything that fits), everything the code under test writes is
// collected in Out. Fault injection: ReadErrAt/WriteErrAt (operation index, -1 = never).
type NetConn struct {
	In          []byte
	Pos         int
	Frag        func(remaining int) int
	Out         []byte
	Closed      int
	Reads       int
	Writes      int
	WriteErrAt  int
	ReadErrAt   int
	ReadErrOnce bool // the read fault is transient: only the read with index ReadErrAt fails
	EOFErr      error  // error returned at end of input (default io.EOF)
	EOFWithData bool   // the read that delivers the last input bytes also returns the end-of-input error
	OnWrite     func() // called at the start of every Write (e.g. zz.Slow)
	OnRead      func() // called at the start of every Read
	MaxReadPos  int    // highest input position ever handed out
	ReadLimit   int    // if > 0: assertion boundary; reads that start at or beyond it are counted
	ReadsBeyond int
}

func NewNetConn(in []byte) *NetConn {
	return &NetConn{In: in, WriteErrAt: -1, ReadErrAt: -1}
}

var ErrInjected = errors.New("zz: injected I/O error")

func (c *NetConn) Read(b []byte) (int, error) {
	if c.OnRead != nil {
		c.OnRead()
	}
	idx := c.Reads
	c.Reads++
	if c.ReadErrAt >= 0 && (idx == c.ReadErrAt || (idx > c.ReadErrAt && !c.ReadErrOnce)) {
		return 0, ErrInjected
	}
	if c.ReadLimit > 0 && c.Pos >= c.ReadLimit {
		c.ReadsBeyond++
	}
	rem := len(c.In) - c.Pos
	if rem <= 0 {
		if c.EOFErr != nil {
			return 0, c.EOFErr
		}
		return 0, io.EOF
	}
	n := rem
	if c.Frag != nil {
		n = c.Frag(rem)
		if n < 1 {
			n = 1
		}
		if n > rem {
			n = rem
		}
	}
	if n > len(b) {
		n = len(b)
	}
	copy(b, c.In[c.Pos:c.Pos+n])
	c.Pos += n
	if c.Pos > c.MaxReadPos {
		c.MaxReadPos = c.Pos
	}
	if c.EOFWithData && c.Pos == len(c.In) {
		if c.EOFErr != nil {
			return n, c.EOFErr
		}
		return n, io.EOF
	}
	return n, nil
}

func (c *NetConn) Write(b []byte) (int, error) {
	if c.OnWrite != nil {
		c.OnWrite()
	}
	idx := c.Writes
	c.Writes++
	if c.WriteErrAt >= 0 && idx >= c.WriteErrAt {
		return 0, ErrInjected
	}
	c.Out = append(c.Out, b...)
	return len(b), nil
}

func (c *NetConn) Close() error                       { c.Closed++; return nil }
func (c *NetConn) LocalAddr() net.Addr                { return zzAddr{} }
func (c *NetConn) RemoteAddr() net.Addr               { return zzAddr{} }
func (c *NetConn) SetDeadline(t time.Time) error      { return nil }
func (c *NetConn) SetReadDeadline(t time.Time) error  { return nil }
func (c *NetConn) SetWriteDeadline(t time.Time) error { return nil }

type zzAddr struct{}

func (zzAddr) Network() string { return "zz" }
func (zzAddr) String() string  { return "zz:0" }
