//go:build verif

package zzverif

// Scratch / retained fields that Reset legitimately leaves alone (comma-separated field paths
// relative to the object; naming a struct field ignores its whole subtree). None of them is
// readable through the public API before it is rewritten:
//
//	bufKV            scratch key/value used while a header/cookie/trailer is being set
//	buf, queryArgs.buf, fullURI, requestURI, postArgs.buf
//	                 output buffers recomputed by QueryString()/FullURI()/RequestURI()/Cookie()
//	maxKeepBodySize  connection-scoped configuration, retained on purpose (named in the property)
const (
	IgnoreURI            = "queryArgs.buf,fullURI,requestURI"
	IgnoreArgs           = "buf"
	IgnoreCookie         = "bufKV,buf"
	IgnoreTrailer        = "bufKV"
	IgnoreRequestHeader  = "bufKV,trailer*.bufKV"
	IgnoreResponseHeader = "bufKV,trailer*.bufKV"
	IgnoreRequest        = "Header.bufKV,Header.trailer*.bufKV,uri.queryArgs.buf,uri.fullURI,uri.requestURI,postArgs.buf,maxKeepBodySize"
	// RequestContext: additionally the fields the property names as kept across requests of one
	// connection: isTLS, trace switch, exiled flag
	IgnoreRequestContext = "Request.Header.bufKV,Request.Header.trailer*.bufKV,Request.uri.queryArgs.buf,Request.uri.fullURI,Request.uri.requestURI,Request.postArgs.buf,Request.maxKeepBodySize,Request.isTLS,Response.Header.bufKV,Response.Header.trailer*.bufKV,Response.maxKeepBodySize,enableTrace,exiled"
	IgnoreResponse       = "Header.bufKV,Header.trailer*.bufKV,maxKeepBodySize"
)
