//go:build verif

package zzverif

import (
	"fmt"
	"reflect"
	"strings"
	"unsafe"
)

// Native counterparts of the engine's zz.Havoc / zz.SameState. The walk order and the set of
// visited leaves mirror /verif/engine/havoc.go exactly.

func skipType(t reflect.Type) bool {
	switch t.PkgPath() {
	case "sync", "sync/atomic":
		return true
	}
	return t.Name() == "NoCopy" || t.Name() == "noCopy"
}

type havocState struct {
	vals []int64
	i    int
	seen map[uintptr]bool
}

func (h *havocState) next() int64 {
	if h.i < len(h.vals) {
		v := h.vals[h.i]
		h.i++
		return v
	}
	h.i++
	return 0
}

// settable returns an addressable, settable view of v even for unexported fields.
func settable(v reflect.Value) reflect.Value {
	return reflect.NewAt(v.Type(), unsafe.Pointer(v.UnsafeAddr())).Elem()
}

func (h *havocState) walk(v reflect.Value, depth int) {
	t := v.Type()
	if skipType(t) {
		return
	}
	v = settable(v)
	switch t.Kind() {
	case reflect.Bool:
		v.SetBool(h.next() != 0)
	case reflect.Int, reflect.Int8, reflect.Int16, reflect.Int32, reflect.Int64:
		v.SetInt(h.next())
	case reflect.Uint, reflect.Uint8, reflect.Uint16, reflect.Uint32, reflect.Uint64, reflect.Uintptr:
		x := uint64(h.next())
		if bits := t.Bits(); bits < 64 {
			x &= (uint64(1) << uint(bits)) - 1
		}
		v.SetUint(x)
	case reflect.String:
		v.SetString(string([]byte{byte(h.next())}))
	case reflect.Struct:
		for i := 0; i < t.NumField(); i++ {
			h.walk(v.Field(i), depth)
		}
	case reflect.Array:
		for i := 0; i < t.Len() && i < 8; i++ {
			h.walk(v.Index(i), depth)
		}
	case reflect.Slice:
		if t.Elem().Kind() == reflect.Uint8 {
			b := reflect.MakeSlice(t, 1, 4)
			b.Index(0).SetUint(uint64(byte(h.next())))
			v.Set(b)
			return
		}
		if t.Elem().Kind() == reflect.Struct && depth < 4 {
			s := reflect.MakeSlice(t, 1, 2)
			v.Set(s)
			h.walk(v.Index(0), depth+1)
		}
	case reflect.Ptr:
		if v.IsNil() || depth >= 4 || t.Elem().Kind() != reflect.Struct || h.seen[v.Pointer()] {
			return
		}
		h.seen[v.Pointer()] = true
		h.walk(v.Elem(), depth+1)
	}
}

// Havoc overwrites every scalar, string and byte-slice leaf reachable from *p (type-directed,
// including unexported fields) with arbitrary values.
func Havoc(name string, p interface{}) {
	in := next("havoc")
	v := reflect.ValueOf(p)
	if v.Kind() != reflect.Ptr || v.IsNil() {
		panic("zz.Havoc needs a non-nil pointer")
	}
	h := &havocState{vals: in.Ints, seen: map[uintptr]bool{v.Pointer(): true}}
	h.walk(v.Elem(), 0)
}

type cmpState struct {
	ignore map[string]bool
	seen   map[[2]uintptr]bool
	diffs  []string
}

func (c *cmpState) walk(a, b reflect.Value, path string, depth int) {
	t := a.Type()
	if c.ignore[strings.TrimPrefix(path, ".")] || skipType(t) {
		return
	}
	a, b = settable(a), settable(b)
	switch t.Kind() {
	case reflect.Bool:
		if a.Bool() != b.Bool() {
			c.diffs = append(c.diffs, path)
		}
	case reflect.Int, reflect.Int8, reflect.Int16, reflect.Int32, reflect.Int64:
		if a.Int() != b.Int() {
			c.diffs = append(c.diffs, path)
		}
	case reflect.Uint, reflect.Uint8, reflect.Uint16, reflect.Uint32, reflect.Uint64, reflect.Uintptr:
		if a.Uint() != b.Uint() {
			c.diffs = append(c.diffs, path)
		}
	case reflect.Float32, reflect.Float64:
		if a.Float() != b.Float() {
			c.diffs = append(c.diffs, path)
		}
	case reflect.String:
		if a.String() != b.String() {
			c.diffs = append(c.diffs, path)
		}
	case reflect.Struct:
		for i := 0; i < t.NumField(); i++ {
			c.walk(a.Field(i), b.Field(i), path+"."+t.Field(i).Name, depth)
		}
	case reflect.Array:
		for i := 0; i < t.Len() && i < 8; i++ {
			c.walk(a.Index(i), b.Index(i), fmt.Sprintf("%s[%d]", path, i), depth)
		}
	case reflect.Slice:
		if a.Len() != b.Len() {
			c.diffs = append(c.diffs, path+"(len)")
			return
		}
		if a.Len() == 0 {
			return
		}
		switch t.Elem().Kind() {
		case reflect.Struct:
			if depth < 4 {
				for i := 0; i < a.Len(); i++ {
					c.walk(a.Index(i), b.Index(i), fmt.Sprintf("%s[%d]", path, i), depth+1)
				}
			}
		case reflect.Bool, reflect.Int, reflect.Int8, reflect.Int16, reflect.Int32, reflect.Int64,
			reflect.Uint, reflect.Uint8, reflect.Uint16, reflect.Uint32, reflect.Uint64, reflect.Uintptr,
			reflect.String, reflect.Float32, reflect.Float64:
			for i := 0; i < a.Len(); i++ {
				c.walk(a.Index(i), b.Index(i), fmt.Sprintf("%s[%d]", path, i), depth)
			}
		}
	case reflect.Ptr:
		if t.Elem().Kind() != reflect.Struct {
			if a.IsNil() != b.IsNil() {
				c.diffs = append(c.diffs, path+"(nil)")
			}
			return
		}
		if a.IsNil() && b.IsNil() {
			return
		}
		if depth >= 4 {
			return
		}
		var ka, kb uintptr
		if !a.IsNil() {
			ka = a.Pointer()
		}
		if !b.IsNil() {
			kb = b.Pointer()
		}
		if c.seen[[2]uintptr{ka, kb}] {
			return
		}
		c.seen[[2]uintptr{ka, kb}] = true
		ae, be := a, b
		if a.IsNil() {
			ae = reflect.New(t.Elem())
		}
		if b.IsNil() {
			be = reflect.New(t.Elem())
		}
		c.walk(ae.Elem(), be.Elem(), path+"*", depth+1)
	case reflect.Interface, reflect.Func:
		if a.IsNil() != b.IsNil() {
			c.diffs = append(c.diffs, path+"(nil)")
		}
	case reflect.Map:
		if a.Len() != b.Len() {
			c.diffs = append(c.diffs, path+"(len)")
		}
	}
}

// SameState reports whether *a and *b are in the same state, field by field (type-directed,
// including unexported fields), ignoring the comma-separated field paths in ignore. A nil
// pointer equals a pointer to a zero value; slices are compared up to their length.
func SameState(a, b interface{}, ignore string) bool {
	c := &cmpState{ignore: map[string]bool{}, seen: map[[2]uintptr]bool{}}
	for _, f := range strings.Split(ignore, ",") {
		if f = strings.TrimSpace(f); f != "" {
			c.ignore[f] = true
		}
	}
	c.walk(reflect.ValueOf(a).Elem(), reflect.ValueOf(b).Elem(), "", 0)
	if len(c.diffs) > 0 {
		fmt.Printf("ZZ-NOTE state differs at: %s\n", strings.Join(c.diffs, " "))
	}
	return len(c.diffs) == 0
}
