//go:build verif

package tagexpr

import (
	"math"
	"unsafe"

	zz "github.com/cloudwego/hertz/internal/zzverif"
)

var zzOps = []string{"*", "/", "%", "+", "-", "<", "<=", ">", ">=", "==", "!=", "&&", "||"}
var zzPrec = []int{6, 6, 6, 5, 5, 4, 4, 4, 4, 3, 3, 2, 1}
var zzNums = []string{"0", "1", "2", "3", "7", "true", "false"}
var zzNumVals = []float64{0, 1, 2, 3, 7, 0, 0}

type zzVal struct {
	isBool bool
	f      float64
	b      bool
	bad    bool // ill-typed
	unspec bool // value not fixed by the documentation (only "does not panic" is demanded)
}

func zzApplyOp(op int, a, b zzVal) zzVal {
	if a.bad || b.bad {
		return zzVal{bad: true}
	}
	if a.unspec || b.unspec {
		return zzVal{unspec: true}
	}
	switch {
	case op <= 4: // arithmetic: numbers only
		if a.isBool || b.isBool {
			return zzVal{bad: true}
		}
		switch op {
		case 0:
			return zzVal{f: a.f * b.f}
		case 1:
			if b.f == 0 {
				return zzVal{f: math.NaN()}
			}
			return zzVal{f: a.f / b.f}
		case 2:
			if b.f == 0 {
				return zzVal{f: math.NaN()}
			}
			if math.IsNaN(a.f) || math.IsNaN(b.f) || math.IsInf(a.f, 0) || int64(b.f) == 0 {
				// int64 conversion of NaN/Inf, or a divisor that truncates to zero (0.5): the
				// documentation does not say what the value is, but evaluation must not panic
				return zzVal{unspec: true}
			}
			return zzVal{f: float64(int64(a.f) % int64(b.f))}
		case 3:
			return zzVal{f: a.f + b.f}
		default:
			return zzVal{f: a.f - b.f}
		}
	case op <= 8: // relational: numbers only
		if a.isBool || b.isBool {
			return zzVal{bad: true}
		}
		switch op {
		case 5:
			return zzVal{isBool: true, b: a.f < b.f}
		case 6:
			return zzVal{isBool: true, b: a.f <= b.f}
		case 7:
			return zzVal{isBool: true, b: a.f > b.f}
		default:
			return zzVal{isBool: true, b: a.f >= b.f}
		}
	case op <= 10: // equality: same type
		if a.isBool != b.isBool {
			return zzVal{bad: true}
		}
		eq := false
		if a.isBool {
			eq = a.b == b.b
		} else {
			eq = a.f == b.f
		}
		if op == 10 {
			eq = !eq
		}
		return zzVal{isBool: true, b: eq}
	default: // logical: bools only
		if !a.isBool || !b.isBool {
			return zzVal{bad: true}
		}
		if op == 11 {
			return zzVal{isBool: true, b: a.b && b.b}
		}
		return zzVal{isBool: true, b: a.b || b.b}
	}
}

// reference: precedence climbing over operands vals[lo..hi] and operators ops[lo..hi-1]
// (documented table, left associative)
func zzRefEval(vals []zzVal, ops []int, lo, hi int, minPrec int) (zzVal, int) {
	left := vals[lo]
	i := lo
	for i < hi && zzPrec[ops[i]] >= minPrec {
		op := ops[i]
		right, ni := zzRefEval(vals, ops, i+1, hi, zzPrec[op]+1)
		left = zzApplyOp(op, left, right)
		i = ni
	}
	return left, i
}

// ZZ_C20_H1: parser/evaluator kernel on literal operands. For every chain of k operators from
// the 13 binary operators, operands from a small number set (including 0, so NaN arises), one
// optional parenthesised group, with and without spaces: the value computed by the real
// parseExpr + sortPriority + operator Run equals the value of a reference precedence-climbing
// evaluator with the documented table; evaluation does not panic.
func ZZ_C20_H1() {
	k := zz.Range("operators", 1, zz.Param("K", 3))
	spaces := zz.Choose("spaces", 2) == 1
	var ops []int
	var nums []int
	for i := 0; i <= k; i++ {
		nums = append(nums, zz.Choose("operand", zz.Param("NUMS", len(zzNums))))
		if i < k {
			ops = append(ops, zz.Choose("operator", len(zzOps)))
		}
	}
	// optional group around operands gl..gr
	gl, gr := -1, -1
	if zz.Choose("group", 2) == 1 {
		gl = zz.Range("groupLeft", 0, k-1)
		gr = zz.Range("groupRight", gl+1, k)
	}
	expr := ""
	for i := 0; i <= k; i++ {
		if i == gl {
			expr += "("
		}
		expr += zzNums[nums[i]]
		if i == gr {
			expr += ")"
		}
		if i < k {
			if spaces {
				expr += " " + zzOps[ops[i]] + " "
			} else {
				expr += zzOps[ops[i]]
			}
		}
	}
	// reference value
	vals := make([]zzVal, k+1)
	for i := range vals {
		switch zzNums[nums[i]] {
		case "true":
			vals[i] = zzVal{isBool: true, b: true}
		case "false":
			vals[i] = zzVal{isBool: true, b: false}
		default:
			vals[i] = zzVal{f: zzNumVals[nums[i]]}
		}
		// bool literals are only lexed as such when followed by a delimiter; use them in the
		// spaced spelling only
		if !spaces {
			zz.Assume(nums[i] < 5)
		}
	}
	var want zzVal
	if gl >= 0 {
		gv, _ := zzRefEval(vals, ops, gl, gr, 1)
		// collapse the group into one operand
		nv := append(append([]zzVal(nil), vals[:gl]...), gv)
		nv = append(nv, vals[gr+1:]...)
		no := append(append([]int(nil), ops[:gl]...), ops[gr:]...)
		want, _ = zzRefEval(nv, no, 0, len(no), 1)
	} else {
		want, _ = zzRefEval(vals, ops, 0, k, 1)
	}
	zz.Assume(!want.bad) // well-typed chains only
	// "a-b" style without spaces would lex "-b" as a signed literal in some positions: keep to
	// the unambiguous spellings
	if !spaces {
		for _, o := range ops {
			zz.Assume(o != 3 && o != 4)
		}
	}
	e, err := parseExpr(expr)
	zz.Cover("reached-assert", true)
	zz.Assert("parses", err == nil)
	if err != nil {
		return
	}
	got := e.run("", nil)
	if want.unspec {
		zz.Cover("unspecified-value-evaluated", true)
		return
	}
	zz.Cover("bool-result", want.isBool)
	zz.Cover("nan-result", !want.isBool && math.IsNaN(want.f))
	if want.isBool {
		b, ok := got.(bool)
		zz.Assert("bool-value-matches-documented-precedence", ok && b == want.b)
	} else {
		f, ok := got.(float64)
		zz.Assert("numeric-value-matches-documented-precedence", ok && (f == want.f || (math.IsNaN(f) && math.IsNaN(want.f))))
	}
}

// ZZ_C20_H2: precedence inside the arguments of the built-in functions. The first argument of
// in(...) is a chain of k operators over the number set; the remaining argument is a literal.
// in(chain, c) must be true exactly when the chain, evaluated with the documented precedence,
// equals c; len('...') of a literal string takes part in arithmetic as a number.
func ZZ_C20_H2() {
	k := zz.Range("operators", 1, zz.Param("K", 2))
	var ops, nums []int
	for i := 0; i <= k; i++ {
		nums = append(nums, zz.Choose("operand", 5))
		if i < k {
			ops = append(ops, zz.Choose("operator", 5)) // arithmetic only: * / % + -
		}
	}
	useLen := zz.Choose("lenOperand", 2) == 1 // spell the first operand as len('..') of that many bytes
	neg := zz.Choose("negated", 2) == 1
	chain := ""
	vals := make([]zzVal, k+1)
	for i := 0; i <= k; i++ {
		vals[i] = zzVal{f: zzNumVals[nums[i]]}
		if i == 0 && useLen {
			chain += "len('" + "abcdefg"[:int(zzNumVals[nums[i]])] + "')"
		} else {
			chain += zzNums[nums[i]]
		}
		if i < k {
			chain += " " + zzOps[ops[i]] + " "
		}
	}
	want, _ := zzRefEval(vals, ops, 0, k, 1)
	zz.Assume(!want.bad && !want.unspec && !math.IsNaN(want.f) && !math.IsInf(want.f, 0))
	// the literal to look for: the reference value itself or a different number
	target := want.f
	if zz.Choose("miss", 2) == 1 {
		target = want.f + 1
	}
	zz.Assume(target >= 0 && target < 1000 && target == float64(int64(target)))
	expr := "in(" + chain + ", " + zzFmtInt(int(target)) + ")"
	if neg {
		expr = "!" + expr
	}
	e, err := parseExpr(expr)
	zz.Cover("reached-assert", true)
	zz.Assert("parses", err == nil)
	if err != nil {
		return
	}
	got, ok := e.run("", nil).(bool)
	wantB := (target == want.f) != neg
	zz.Cover("found", target == want.f)
	zz.Assert("function-argument-evaluated-with-documented-precedence", ok && got == wantB)
}

func zzFmtInt(n int) string {
	if n == 0 {
		return "0"
	}
	var b []byte
	for n > 0 {
		b = append([]byte{byte('0' + n%10)}, b...)
		n /= 10
	}
	return string(b)
}

// ZZ_C20_H3: field references. The current field's value is injected through the interpreter's
// own field table (no reflection): nil, numbers, booleans, strings. Expressions combine the
// reference - plain, negated (!$) or doubly negated (!!$) - with a boolean literal through
// && || == != in either operand order. The documented truthiness rule (a value is true unless it
// is 0, ” or nil) fixes the result; evaluation must not panic for any field value.
func ZZ_C20_H3() {
	vi := zz.Choose("fieldValue", 10)
	var v interface{}
	truthy := false
	isBool := false
	switch vi {
	case 0:
		v = nil
	case 1:
		v = float64(0)
	case 2:
		v, truthy = float64(1), true
	case 3:
		v, truthy = float64(7), true
	case 4:
		v, truthy, isBool = true, true, true
	case 5:
		v, isBool = false, true
	case 6:
		v = ""
	case 7:
		v, truthy = "ab", true
	case 8:
		v = []int{} // a slice-typed field: its value is the slice itself
	case 9:
		v = []int{1, 2}
	}
	if vi >= 8 {
		// slices: the documentation fixes no truth value; the field compared with itself and the
		// reference inside a logical expression only have to evaluate without panicking
		for _, expr := range []string{"$ == $", "$ != $", "!$ || $ == $", "len($) > 0 && $ == $"} {
			t := &TagExpr{s: &structVM{fields: map[string]*fieldVM{
				"F": {valueGetter: func(unsafe.Pointer) interface{} { return v }},
			}}}
			e, err := parseExpr(expr)
			zz.Assert("parses", err == nil)
			if err == nil {
				_ = e.run("F", t)
			}
		}
		zz.Cover("slice-field", true)
		zz.Cover("reached-assert", true)
		return
	}
	bangs := zz.Choose("bangs", 3)
	op := zz.Choose("operator", 4) // && || == !=
	lit := zz.Choose("literal", 2) == 1
	fieldFirst := zz.Choose("fieldFirst", 2) == 1
	named := zz.Choose("namedField", 2) == 1
	ref := "$"
	if named {
		ref = "(F)$"
	}
	ref = "!!"[:bangs] + ref
	litS := "false"
	if lit {
		litS = "true"
	}
	opS := []string{"&&", "||", "==", "!="}[op]
	expr := ref + " " + opS + " " + litS
	if !fieldFirst {
		expr = litS + " " + opS + " " + ref
	}
	// value of the reference as an operand
	refBool := truthy
	if bangs == 1 {
		refBool = !truthy
	}
	// a bare reference to a non-boolean field as operand of a logical or equality operator is
	// not typed by the documentation: only "does not panic" is demanded there (the value is not
	// compared)
	typed := bangs > 0 || isBool
	var want bool
	switch op {
	case 0:
		want = refBool && lit
	case 1:
		want = refBool || lit
	case 2:
		want = refBool == lit
	case 3:
		want = refBool != lit
	}
	t := &TagExpr{s: &structVM{fields: map[string]*fieldVM{
		"F": {valueGetter: func(unsafe.Pointer) interface{} { return v }},
	}}}
	e, err := parseExpr(expr)
	zz.Cover("reached-assert", true)
	zz.Assert("parses", err == nil)
	if err != nil {
		return
	}
	got := e.run("F", t)
	zz.Cover("nil-field", vi == 0)
	if typed {
		zz.Assert("field-expression-follows-truthiness-rule", FakeBool(got) == want)
		_, isb := got.(bool)
		zz.Assert("boolean-operators-yield-booleans", isb)
	}
}

// ZZ_C20_H5: the built-in regexp() on string operands, with unary negation and inside a logical
// expression: regexp('<pattern>', '<text>') is true exactly when the text matches, ! negates it,
// !! leaves it, and it combines with && / || like any boolean. (What regexp() yields on a
// non-string operand is not fixed by the documentation and is not asserted.)
func ZZ_C20_H5() {
	pi := zz.Choose("pattern", 3)
	ti := zz.Choose("text", 4)
	pat := []string{"^a", "b$", "^$"}[pi]
	txt := []string{"", "a", "ab", "ba"}[ti]
	match := false
	switch pi {
	case 0:
		match = len(txt) > 0 && txt[0] == 'a'
	case 1:
		match = len(txt) > 0 && txt[len(txt)-1] == 'b'
	case 2:
		match = txt == ""
	}
	bangs := zz.Choose("bangs", 3)
	val := match
	if bangs == 1 {
		val = !match
	}
	expr := "!!"[:bangs] + "regexp('" + pat + "', '" + txt + "')"
	want := val
	switch zz.Choose("context", 4) {
	case 1:
		expr += " && true"
	case 2:
		expr = "false || " + expr
	case 3:
		expr = expr + " == false"
		want = !val
	}
	e, err := parseExpr(expr)
	zz.Cover("reached-assert", true)
	zz.Cover("matched", match)
	zz.Assert("parses", err == nil)
	if err != nil {
		return
	}
	got, ok := e.run("", nil).(bool)
	zz.Assert("regexp-function-matches-and-negates", ok && got == want)
}

var zzRepOps = []int{0, 3, 7, 9, 11, 12} // one operator per precedence level: * + > == && ||

// ZZ_C20_H4: long parenthesis-free runs. Chains of K (4 to 5) operators, one representative per
// precedence level, in every order - so that runs of four and five ascending or descending
// levels occur -, each operand a number from a fixed pattern or a boolean literal (ill-typed
// combinations are filtered by the reference before the parser runs): value equals the reference
// precedence-climbing evaluation.
func ZZ_C20_H4() {
	k := zz.Range("operators", 4, zz.Param("K", 4))
	var ops, nums []int
	for i := 0; i <= k; i++ {
		// a number from a fixed pattern, or a boolean literal (the typing filter keeps the
		// combinations that make sense)
		switch zz.Choose("operandKind", 3) {
		case 0:
			nums = append(nums, []int{1, 2, 3, 2, 1, 4}[i%6]) // indexes into zzNums: 1 2 3 2 1 7
		case 1:
			nums = append(nums, 5) // true
		case 2:
			nums = append(nums, 6) // false
		}
		if i < k {
			ops = append(ops, zzRepOps[zz.Choose("operator", len(zzRepOps))])
		}
	}
	expr := ""
	vals := make([]zzVal, k+1)
	for i := 0; i <= k; i++ {
		expr += zzNums[nums[i]]
		switch nums[i] {
		case 5:
			vals[i] = zzVal{isBool: true, b: true}
		case 6:
			vals[i] = zzVal{isBool: true, b: false}
		default:
			vals[i] = zzVal{f: zzNumVals[nums[i]]}
		}
		if i < k {
			expr += " " + zzOps[ops[i]] + " "
		}
	}
	want, _ := zzRefEval(vals, ops, 0, k, 1)
	zz.Assume(!want.bad && !want.unspec)
	e, err := parseExpr(expr)
	zz.Cover("reached-assert", true)
	zz.Assert("parses", err == nil)
	if err != nil {
		return
	}
	got := e.run("", nil)
	zz.Cover("bool-result", want.isBool)
	if want.isBool {
		b, ok := got.(bool)
		zz.Assert("bool-value-matches-documented-precedence", ok && b == want.b)
	} else {
		f, ok := got.(float64)
		zz.Assert("numeric-value-matches-documented-precedence", ok && (f == want.f || (math.IsNaN(f) && math.IsNaN(want.f))))
	}
}

// ZZ_C20_H6: runs of unary minus in front of a field reference, a parenthesised group or a
// function call: k minus signs negate k times ("--x" is x), inside a comparison with the
// expected number.
func ZZ_C20_H6() {
	k := zz.Range("minusSigns", 0, 3)
	form := zz.Choose("operand", 3)
	fv := []float64{0, 1, 7}[zz.Choose("fieldValue", 3)]
	var operand string
	var val float64
	switch form {
	case 0:
		operand, val = "$", fv
	case 1:
		operand, val = "(1+2)", 3
	case 2:
		operand, val = "len('ab')", 2
	}
	if k%2 == 1 {
		val = -val
	}
	num := zzFmtInt(int(math.Abs(val)))
	if val < 0 {
		num = "-" + num
	}
	expr := "---"[:k] + operand + " == " + num
	t := &TagExpr{s: &structVM{fields: map[string]*fieldVM{
		"F": {valueGetter: func(unsafe.Pointer) interface{} { return fv }},
	}}}
	e, err := parseExpr(expr)
	zz.Cover("reached-assert", true)
	zz.Cover("double-minus", k == 2)
	zz.Assert("parses", err == nil)
	if err != nil {
		return
	}
	got, ok := e.run("F", t).(bool)
	zz.Assert("k-minus-signs-negate-k-times", ok && got)
}

var zzStrs = []string{"", "a", "ab", "b", "B"}

// ZZ_C20_H7: typing of the comparison operators on string operands: '<s>' op '<t>' (and the
// concatenation '<s>'+'<u>' op '<t>') for s, t, u over a small set of strings (empty, prefix of
// one another, different case) and op over < <= > >= == != evaluates to Go's byte-wise string
// comparison; never panics. Binds tighter than == / && as documented: 'a'<'b' == true.
func ZZ_C20_H7() {
	s := zzStrs[zz.Choose("left", len(zzStrs))]
	t := zzStrs[zz.Choose("right", len(zzStrs))]
	if zz.Choose("symbolicOperands", 2) == 1 {
		// operands of up to SL symbolic letters each
		sb := zz.Bytes("leftbytes", zz.Range("leftlen", 0, zz.Param("SL", 2)))
		tb := zz.Bytes("rightbytes", zz.Range("rightlen", 0, zz.Param("SL", 2)))
		for _, c := range sb {
			zz.Assume(c >= 'A' && c <= 'z' && c != '\\')
		}
		for _, c := range tb {
			zz.Assume(c >= 'A' && c <= 'z' && c != '\\')
		}
		s, t = string(sb), string(tb)
	}
	op := 5 + zz.Choose("operator", 6)
	spaces := zz.Choose("spaces", 2) == 1
	sep := ""
	if spaces {
		sep = " "
	}
	left := "'" + s + "'"
	lv := s
	if zz.Choose("concat", 2) == 1 {
		u := zzStrs[zz.Choose("suffix", len(zzStrs))]
		left += sep + "+" + sep + "'" + u + "'"
		lv += u
	}
	expr := left + sep + zzOps[op] + sep + "'" + t + "'"
	var want bool
	switch op {
	case 5:
		want = lv < t
	case 6:
		want = lv <= t
	case 7:
		want = lv > t
	case 8:
		want = lv >= t
	case 9:
		want = lv == t
	default:
		want = lv != t
	}
	if op <= 8 && zz.Choose("thenEquality", 2) == 1 {
		// relational binds tighter than equality
		expr += sep + "==" + sep + "true"
	}
	e, err := parseExpr(expr)
	zz.Cover("reached-assert", true)
	zz.Assert("parses", err == nil)
	if err != nil {
		return
	}
	got := e.run("", nil)
	b, ok := got.(bool)
	zz.Cover("true-result", want)
	zz.Assert("string-comparison-matches-byte-wise-order", ok && b == want)
}
